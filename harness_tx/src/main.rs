//! C14 transcript producer: runs a seeded list of encode / decode / kernel cases against one
//! feature configuration of lzma-rust2 and prints one line per case. The runner compares the
//! transcripts of the four configurations line by line.

#[path = "../../harness/src/util.rs"]
#[allow(dead_code)]
mod util;

use std::num::NonZeroU64;
use std::panic::{catch_unwind, AssertUnwindSafe};

#[cfg(not(feature = "std"))]
use lzma_rust2::{Read, Write};
#[cfg(feature = "std")]
use std::io::{Read, Write};

use lzma_rust2::{
    verif, CheckType, EncodeMode, FilterType, LZIPOptions, LZIPReader, LZIPWriter, LZMA2Options, LZMA2Reader, LZMA2Writer,
    LZMAOptions, LZMAReader, LZMAWriter, MFType, XZOptions, XZReader, XZWriter,
};
use util::{hash64, mix, Rng};

#[cfg(feature = "std")]
fn kind_of(e: &std::io::Error) -> &'static str {
    use std::io::ErrorKind::*;
    match e.kind() {
        UnexpectedEof => "EOF",
        InvalidData => "InvalidData",
        InvalidInput => "InvalidInput",
        OutOfMemory => "OutOfMemory",
        Unsupported => "Unsupported",
        WriteZero => "WriteZero",
        Interrupted => "Interrupted",
        _ => "Other",
    }
}

#[cfg(not(feature = "std"))]
fn kind_of(e: &lzma_rust2::Error) -> &'static str {
    use lzma_rust2::Error::*;
    match e {
        EOF => "EOF",
        Interrupted => "Interrupted",
        InvalidData(_) => "InvalidData",
        InvalidInput(_) => "InvalidInput",
        OutOfMemory(_) => "OutOfMemory",
        Other(_) => "Other",
        Unsupported(_) => "Unsupported",
        WriteZero(_) => "WriteZero",
    }
}

fn gen_data(r: &mut Rng, len: usize) -> Vec<u8> {
    let mut out = Vec::with_capacity(len);
    match r.below(6) {
        0 => out = r.bytes(len),
        1 => out.resize(len, r.next_u32() as u8),
        2 => {
            let p = 1 + r.usize_below(300);
            let pat = r.bytes(p);
            while out.len() < len {
                out.extend_from_slice(&pat[..p.min(len - out.len())]);
            }
        }
        3 => {
            // word soup
            let words: Vec<Vec<u8>> = (0..40).map(|_| { let n = 1 + r.usize_below(9); r.bytes(n).iter().map(|b| b'a' + b % 26).collect() }).collect();
            while out.len() < len {
                out.extend_from_slice(&words[r.usize_below(words.len())]);
                out.push(b' ');
            }
            out.truncate(len);
        }
        4 => {
            // edit-repeat
            out = r.bytes(len.min(200));
            while out.len() < len {
                let d = 1 + r.usize_below(out.len().min(5000));
                let n = (2 + r.usize_below(60)).min(len - out.len());
                for _ in 0..n {
                    let b = out[out.len() - d];
                    out.push(b);
                }
                if out.len() < len {
                    out.push(r.next_u32() as u8);
                }
            }
        }
        _ => {
            // random / constant segments
            while out.len() < len {
                let n = (1 + r.usize_below(70_000)).min(len - out.len());
                if r.chance(1, 2) {
                    let b = r.bytes(n);
                    out.extend_from_slice(&b);
                } else {
                    let c = r.next_u32() as u8;
                    out.extend(std::iter::repeat(c).take(n));
                }
            }
        }
    }
    out
}

fn gen_opts(r: &mut Rng, lzma2: bool) -> LZMAOptions {
    let (lc, lp) = loop {
        let lc = r.below(9) as u32;
        let lp = r.below(5) as u32;
        if !lzma2 || lc + lp <= 4 {
            break (lc, lp);
        }
    };
    let dict = *r.pick(&[4096u32, 4097, 8192, 65536, 1 << 18, 1 << 20]);
    let mode = if r.chance(1, 2) { EncodeMode::Fast } else { EncodeMode::Normal };
    let mf = if r.chance(1, 2) { MFType::HC4 } else { MFType::BT4 };
    let nice = *r.pick(&[8u32, 16, 32, 64, 128, 273]);
    let depth = *r.pick(&[0i32, 0, 1, 4, 48]);
    LZMAOptions::new(dict, lc, lp, r.below(5) as u32, mode, nice, mf, depth)
}

#[derive(Clone, Copy, Debug)]
enum Cont {
    LzmaHeader,
    LzmaRaw,
    Lzma2,
    Lzma2Chunked,
    Xz,
    Lzip,
}

fn encode(c: Cont, o: &LZMAOptions, data: &[u8], r: &mut Rng) -> Result<Vec<u8>, &'static str> {
    let out = Vec::new();
    macro_rules! run {
        ($w:expr) => {{
            let mut w = $w;
            // a few writes so that window handling between calls is exercised
            let mut off = 0;
            while off < data.len() {
                let n = (1 + r.usize_below(100_000)).min(data.len() - off);
                w.write_all(&data[off..off + n]).map_err(|e| kind_of(&e))?;
                off += n;
            }
            w.finish().map_err(|e| kind_of(&e))
        }};
    }
    match c {
        Cont::LzmaHeader => run!(LZMAWriter::new_use_header(out, o, None).map_err(|e| kind_of(&e))?),
        Cont::LzmaRaw => run!(LZMAWriter::new_no_header(out, o, true).map_err(|e| kind_of(&e))?),
        Cont::Lzma2 => run!(LZMA2Writer::new(out, LZMA2Options { lzma_options: o.clone(), chunk_size: None })),
        Cont::Lzma2Chunked => run!(LZMA2Writer::new(out, LZMA2Options { lzma_options: o.clone(), chunk_size: NonZeroU64::new(70_000) })),
        Cont::Xz => {
            let mut x = XZOptions::with_preset(6);
            x.lzma_options = o.clone();
            x.check_type = *r.pick(&[CheckType::None, CheckType::Crc32, CheckType::Crc64, CheckType::Sha256]);
            if r.chance(1, 3) {
                x.prepend_pre_filter(FilterType::Delta, 1 + r.below(256) as u32);
            }
            if r.chance(1, 3) {
                x.block_size = NonZeroU64::new(65536);
            }
            run!(XZWriter::new(out, x).map_err(|e| kind_of(&e))?)
        }
        Cont::Lzip => run!(LZIPWriter::new(out, LZIPOptions { lzma_options: o.clone(), member_size: if r.chance(1, 2) { NonZeroU64::new(65536) } else { None } })),
    }
}

/// Decodes; returns (bytes produced, hash of them, "OK" or error kind).
fn decode(c: Cont, o: &LZMAOptions, bytes: &[u8]) -> (usize, u64, &'static str) {
    let mut buf = vec![0u8; 4096];
    let mut out: Vec<u8> = Vec::new();
    macro_rules! drain {
        ($r:expr) => {{
            let mut rd = $r;
            loop {
                match rd.read(&mut buf) {
                    Ok(0) => break "OK",
                    Ok(n) => {
                        out.extend_from_slice(&buf[..n]);
                        if out.len() > (64 << 20) {
                            break "CAP";
                        }
                    }
                    Err(e) => break kind_of(&e),
                }
            }
        }};
    }
    let end = match c {
        Cont::LzmaHeader => match LZMAReader::new_mem_limit(bytes, 1 << 20, None) {
            Ok(r) => drain!(r),
            Err(e) => kind_of(&e),
        },
        Cont::LzmaRaw => match LZMAReader::new(bytes, u64::MAX, o.lc, o.lp, o.pb, o.dict_size, None) {
            Ok(r) => drain!(r),
            Err(e) => kind_of(&e),
        },
        Cont::Lzma2 | Cont::Lzma2Chunked => drain!(LZMA2Reader::new(bytes, o.dict_size, None)),
        Cont::Xz => drain!(XZReader::new(bytes, true)),
        Cont::Lzip => match LZIPReader::new(bytes) {
            Ok(r) => drain!(r),
            Err(e) => kind_of(&e),
        },
    };
    (out.len(), hash64(&out), end)
}

fn mutate(r: &mut Rng, b: &mut Vec<u8>) {
    if b.is_empty() {
        return;
    }
    for _ in 0..(1 + r.usize_below(3)) {
        let p = r.usize_below(b.len());
        match r.below(5) {
            0 | 1 => b[p] ^= 1 << r.below(8),
            2 => b[p] = *r.pick(&[0u8, 0xFF, 0x80]),
            3 => {
                b.truncate(p.max(1));
            }
            _ => {
                let e = (p + 1 + r.usize_below(10)).min(b.len());
                b.drain(p..e);
                if b.is_empty() {
                    return;
                }
            }
        }
    }
}

fn main() {
    let args: Vec<String> = std::env::args().collect();
    let seed: u64 = args.get(1).and_then(|s| s.parse().ok()).unwrap_or(1);
    let n_enc: u64 = args.get(2).and_then(|s| s.parse().ok()).unwrap_or(200);
    let shard: u64 = args.get(3).and_then(|s| s.parse().ok()).unwrap_or(0);
    let nshards: u64 = args.get(4).and_then(|s| s.parse().ok()).unwrap_or(1);
    std::panic::set_hook(Box::new(|_| {}));
    println!("# config std={} optimization={}", cfg!(feature = "std"), cfg!(feature = "optimization"));

    // ---- encode + decode cases
    for i in 0..n_enc {
        if i % nshards != shard {
            continue;
        }
        let mut r = Rng::new(mix(seed, 0xC14_0000 + i));
        let c = *r.pick(&[Cont::LzmaHeader, Cont::LzmaRaw, Cont::Lzma2, Cont::Lzma2Chunked, Cont::Xz, Cont::Lzip]);
        let lzma2 = !matches!(c, Cont::LzmaHeader | Cont::LzmaRaw);
        let mut o = gen_opts(&mut r, lzma2);
        if matches!(c, Cont::Lzip) {
            o.lc = 3;
            o.lp = 0;
            o.pb = 2;
        }
        let len = match r.below(4) {
            0 => r.usize_below(50),
            1 => r.log_range(1, 5000) as usize,
            _ => r.log_range(1, 400_000) as usize,
        };
        let data = gen_data(&mut r, len);
        // renormalisation inside real encodes: a third of the cases start close to 2^31
        let bias = if i % 3 == 0 { 0x7FFF_FFFF - r.range(1, 150_000) as i32 } else { 0 };
        verif::set_lz_pos_bias(bias);
        let mut r2 = r.clone();
        let enc = catch_unwind(AssertUnwindSafe(|| encode(c, &o, &data, &mut r2)));
        verif::set_lz_pos_bias(0);
        let stream = match enc {
            Err(_) => {
                println!("E {i} {c:?} bias={} PANIC", (bias != 0) as u8);
                continue;
            }
            Ok(Err(k)) => {
                println!("E {i} {c:?} bias={} ERR {k}", (bias != 0) as u8);
                continue;
            }
            Ok(Ok(s)) => s,
        };
        println!("E {i} {c:?} bias={} len={} out={} h={:016x}", (bias != 0) as u8, data.len(), stream.len(), hash64(&stream));
        // valid decode
        let d = catch_unwind(AssertUnwindSafe(|| decode(c, &o, &stream)));
        match d {
            Ok((n, h, end)) => println!("V {i} n={n} h={h:016x} {end} roundtrip={}", (h == hash64(&data) && n == data.len()) as u8),
            Err(_) => println!("V {i} PANIC"),
        }
        // corrupted decodes
        for k in 0..4 {
            let mut b = stream.clone();
            let mut rm = Rng::new(mix(seed ^ 0xDEC, i * 16 + k));
            mutate(&mut rm, &mut b);
            let d = catch_unwind(AssertUnwindSafe(|| decode(c, &o, &b)));
            match d {
                Ok((n, h, end)) => println!("D {i}.{k} n={n} h={h:016x} {end}"),
                Err(_) => println!("D {i}.{k} PANIC"),
            }
        }
    }

    // ---- inputs whose length is exactly the encoder's window buffer size (-1, 0, +1): the last
    // match runs to the very end of a completely full window
    if shard == 1 % nshards {
        for (k, (dict, normal, lzma2)) in [(4096u32, false, false), (4096, true, false), (8192, false, true), (65536, true, true), (4097, false, false)]
            .iter()
            .enumerate()
        {
            let extra_before: u32 = if *lzma2 { (65536u32).saturating_sub(*dict).max(if *normal { 4096 } else { 1 }) } else if *normal { 4096 } else { 1 };
            let extra_after: u32 = if *normal { 4096 } else { 272 };
            let buf = *dict + extra_before + extra_after + 273 + (*dict / 2 + (256 << 10));
            for d in [-1i64, 0, 1] {
                let len = (buf as i64 + d) as usize;
                let mut r = Rng::new(mix(seed, 0xC14_ED6E + k as u64));
                let period = 1 + r.usize_below(40);
                let pat = r.bytes(period);
                let data: Vec<u8> = (0..len).map(|i| pat[i % period]).collect();
                let (mode, mf, nice) = if *normal { (EncodeMode::Normal, MFType::BT4, 64) } else { (EncodeMode::Fast, MFType::HC4, 32) };
                let o = LZMAOptions::new(*dict, 3, 0, 2, mode, nice, mf, 0);
                let c = if *lzma2 { Cont::Lzma2 } else { Cont::LzmaHeader };
                let out = catch_unwind(AssertUnwindSafe(|| {
                    // one write: the window is filled to its last byte before finishing
                    let w = Vec::new();
                    match c {
                        Cont::Lzma2 => {
                            let mut wr = LZMA2Writer::new(w, LZMA2Options { lzma_options: o.clone(), chunk_size: None });
                            wr.write_all(&data).map_err(|e| kind_of(&e))?;
                            wr.finish().map_err(|e| kind_of(&e))
                        }
                        _ => {
                            let mut wr = LZMAWriter::new_use_header(w, &o, None).map_err(|e| kind_of(&e))?;
                            wr.write_all(&data).map_err(|e| kind_of(&e))?;
                            wr.finish().map_err(|e| kind_of(&e))
                        }
                    }
                }));
                match out {
                    Ok(Ok(s)) => println!("W {k}.{} dict={dict} normal={normal} lzma2={lzma2} len={len} out={} h={:016x}", d + 1, s.len(), hash64(&s)),
                    Ok(Err(e)) => println!("W {k}.{} ERR {e}", d + 1),
                    Err(_) => println!("W {k}.{} PANIC", d + 1),
                }
            }
        }
    }

    // ---- tiny LZMA2 chunks whose range coder input ends inside a direct-bits run
    if shard == 0 {
        let mut r = Rng::new(mix(seed, 0xC14_CCCC));
        for t in 0..1500u64 {
            let comp = 5 + (t % 4) as usize;
            let unc = 1 + r.usize_below(3000);
            let mut s = vec![0xE0u8, ((unc - 1) >> 8) as u8, (unc - 1) as u8, 0, (comp - 1) as u8, (r.below(5) * 45 + r.below(5) * 9) as u8];
            s.push(0);
            let p = r.bytes(comp - 1);
            s.extend_from_slice(&p);
            if t % 3 == 0 {
                for b in s.iter_mut().skip(8) {
                    *b = 0xFF;
                }
            }
            if t % 2 == 0 {
                // make the initial code small so that matches with far distances (direct bits) decode
                s[7] = 0;
                s[8] = r.below(4) as u8;
            }
            s.push(0);
            let o = LZMAOptions::new(1 << 20, 3, 0, 2, EncodeMode::Fast, 32, MFType::HC4, 0);
            match catch_unwind(AssertUnwindSafe(|| decode(Cont::Lzma2, &o, &s))) {
                Ok((n, h, end)) => println!("T {t} n={n} h={h:016x} {end}"),
                Err(_) => println!("T {t} PANIC"),
            }
        }
    }

    // ---- kernels: position normalisation (dispatch vs scalar vs specification)
    if shard == 0 {
        let mut r = Rng::new(mix(seed, 0xC14_AAAA));
        let mut mism_dispatch = 0u64;
        let mut mism_scalar = 0u64;
        let mut first_scalar = String::new();
        let mut first_dispatch = String::new();
        let mut mism_sse41 = 0u64;
        let mut runs_sse41 = 0u64;
        let mut first_sse41 = String::new();
        let mut acc = 0u64;
        let mut backing = vec![0i32; 128];
        for t in 0..4000u64 {
            let align = r.usize_below(16);
            let len = r.usize_below(71);
            let off = match r.below(4) {
                0 => 0x7FFF_FFFF - r.range(4097, 1 << 26) as i32,
                1 => r.range(1, 1 << 30) as i32,
                2 => 1,
                _ => i32::MAX - 4097,
            };
            for v in backing.iter_mut() {
                *v = match r.below(8) {
                    0 => 0,
                    1 => off,
                    2 => off.wrapping_sub(1).max(0),
                    3 => off.saturating_add(1),
                    4 => i32::MAX,
                    5 => r.range(0, off.max(1) as u64) as i32,
                    _ => (r.next_u32() >> 1) as i32,
                };
            }
            let spec: Vec<i32> = backing[align..align + len].iter().map(|&p| (p as i64 - off as i64).max(0) as i32).collect();
            let mut a = backing.clone();
            verif::normalize_dispatch(&mut a[align..align + len], off);
            let mut b = backing.clone();
            verif::normalize_scalar(&mut b[align..align + len], off);
            if a[align..align + len] != spec[..] {
                mism_dispatch += 1;
                if first_dispatch.is_empty() {
                    first_dispatch = format!("t={t} align={align} len={len} off={off}");
                }
            }
            if b[align..align + len] != spec[..] {
                mism_scalar += 1;
                if first_scalar.is_empty() {
                    let j = (0..len).find(|&j| b[align + j] != spec[j]).unwrap();
                    first_scalar = format!("t={t} off={off} value={} scalar={} spec={}", backing[align + j], b[align + j], spec[j]);
                }
            }
            // the SSE4.1 twin is never chosen by the dispatcher on a CPU with AVX2: run it directly
            let mut c = backing.clone();
            if verif::normalize_sse41(&mut c[align..align + len], off) {
                runs_sse41 += 1;
                if c[align..align + len] != spec[..] || c[..align] != backing[..align] || c[align + len..] != backing[align + len..] {
                    mism_sse41 += 1;
                    if first_sse41.is_empty() {
                        first_sse41 = format!("t={t} align={align} len={len} off={off}");
                    }
                }
            }
            if a[..align] != backing[..align] || a[align + len..] != backing[align + len..] {
                // a kernel must not touch anything outside the slice it was given
                mism_dispatch += 1;
                if first_dispatch.is_empty() {
                    first_dispatch = format!("t={t} align={align} len={len} off={off} (wrote outside the slice)");
                }
            }
            let bytes: Vec<u8> = a[align..align + len].iter().flat_map(|v| v.to_le_bytes()).collect();
            acc = mix(acc, hash64(&bytes));
        }
        println!("N dispatch-result-hash {acc:016x}");
        println!("NSPEC dispatch mismatches={mism_dispatch} {first_dispatch}");
        println!("NSPEC scalar mismatches={mism_scalar} {first_scalar}");
        println!("NSPEC sse41 mismatches={mism_sse41} runs={runs_sse41} {first_sse41}");

        // ---- kernels: decode_direct_bits on caller supplied state (asm vs portable across builds)
        let mut r = Rng::new(mix(seed, 0xC14_BBBB));
        for t in 0..3000u64 {
            let len = match t % 4 {
                0 => r.usize_below(6),
                1 => r.usize_below(40),
                2 => 65531,
                _ => r.usize_below(2000),
            };
            let payload = if t % 5 == 0 { vec![0xFFu8; len] } else { r.bytes(len) };
            let range = if t % 2 == 0 { r.next_u32() | 0x0100_0000 } else { (r.next_u32() >> 9).max(1) };
            let code = r.next_u32() % range;
            let count = 1 + r.below(26) as u32;
            let rounds = 1 + r.below(12) as u32;
            let d = verif::direct_bits(&payload, range, code, count, rounds);
            println!("B {t} len={len} r={} range={:08x} code={:08x} fin={} end={}", d.result, d.range, d.code, d.finished as u8, d.pos_at_end as u8);
        }
    }
}
