#!/usr/bin/env python3
"""Refreshes the two generated tables of DESIGN.md section 12 (between the HTML comment markers)."""
import os
import subprocess
import sys

ROOT = os.path.dirname(os.path.dirname(os.path.abspath(__file__)))


def table(tool):
    out = subprocess.run([sys.executable, os.path.join(ROOT, "tools", tool)], stdout=subprocess.PIPE, text=True).stdout
    lines = [l for l in out.splitlines() if l.startswith("|")]
    return "\n".join(lines)


def main():
    p = os.path.join(ROOT, "DESIGN.md")
    s = open(p).read()
    for tool, tag in (("collect_seeds.py", "SEED-TABLE"), ("collect_reverts.py", "REVERT-TABLE")):
        b, e = f"<!-- {tag}-BEGIN -->", f"<!-- {tag}-END -->"
        i, j = s.index(b) + len(b), s.index(e)
        s = s[:i] + "\n" + table(tool) + "\n" + s[j:]
    open(p, "w").write(s)


if __name__ == "__main__":
    main()
