#!/usr/bin/env python3
"""Refreshes the seeded-change table of DESIGN.md section 12.1 (between the HTML comment markers) from
the meta.json files under /verif/seeded. (The revert table of 12.2 was generated once by
collect_reverts.py from run logs that lived under /tmp; it is kept as it is.)"""
import os
import sys

ROOT = os.path.dirname(os.path.dirname(os.path.abspath(__file__)))
sys.path.insert(0, os.path.join(ROOT, "tools"))
import collect_seeds  # noqa: E402


def main():
    p = os.path.join(ROOT, "DESIGN.md")
    s = open(p).read()
    b, e = "<!-- SEED-TABLE-BEGIN -->", "<!-- SEED-TABLE-END -->"
    i, j = s.index(b) + len(b), s.index(e)
    s = s[:i] + "\n" + collect_seeds.design_table() + "\n" + s[j:]
    open(p, "w").write(s)


if __name__ == "__main__":
    main()
