"""Per-property configuration of the checks."""
import json
import os
import subprocess
import sys

import vlib
from vlib import NCPU, log

LIBLZMA = "liblzma 5.8 (xz) linked statically through the liblzma crate is trusted as reference model"
WALKERS = "the harness's own LZMA2/XZ/LZIP walkers (validated against liblzma-made files) give structural ground truth"

ENGINES = [
    {"name": "lzv_tx", "path": "/verif/harness_tx", "serves_properties": ["C14"],
     "kind_free_text": "transcript producer compiled against four feature configurations of the crate (std/no_std x "
                       "optimization on/off); transcripts are compared offline by the runner"},
    {"name": "lzv", "path": "/verif/harness", "serves_properties": [f"C{i:02d}" for i in range(1, 20)],
     "kind_free_text": "Rust harness crate (path-depends on /repo, hooks on): seeded workload generators, fault-injecting "
                       "I/O, independent format walkers, liblzma reference model, oracles; run as parallel shard processes"},
    {"name": "vcheck", "path": "/verif/vcheck", "serves_properties": [f"C{i:02d}" for i in range(1, 20)],
     "kind_free_text": "python3 runner: builds the variants (release, debug-assertions, ASan, TSan, Miri, valgrind), fans out "
                       "shards, confirms crashes in solitary re-runs, applies KNOWN_FINDINGS.txt, writes evidence"},
]

NOTES = ("Technique family: runtime monitoring and sanitizers only. Exit 0 = held on everything explored, 1 = unlisted "
         "violation, 2 = inconclusive (never printed as VIOLATION). VERIF_SEED seeds every random choice.")

PROPS = {
    "C01": {
        "level": "exploration",
        "variants": {
            "quick": [("rel", {}), ("dbg", {})],
            "thorough": [("rel", {"timeout": 4 * 3600}), ("dbg", {"timeout": 4 * 3600})],
        },
        "floors": ["literal", "match_slot_lt4", "match_slot_lt14", "match_slot_ge14", "rep0", "rep1", "rep2", "rep3",
                   "short_rep", "end_marker", "window_move", "normalize", "lzma2_chunk_lzma",
                   "lzma2_chunk_uncompressed", "lzma2_reset_dict", "lzma2_reset_state_props", "lzma2_reset_state",
                   "lzma2_no_reset", "lzma2_independent_start"],
        "rule": "case = (data family x length class x in-range LZMA option vector x container {.lzma header+size, "
                "header+EOS, raw+EOS, raw+size, raw+EOS+size, LZMA2, LZMA2 chunked} x preset dict x write partition x "
                "read-buffer sequence x lz_pos bias); round trip through the crate's writer and matching reader must be "
                "panic-free, error-free and byte-exact, LZMA2 output must satisfy the walker's structural rules. A cell "
                "(container|mode|mf|lc+lp class|dict class|family|length class|bias) is non-trivial when the encoder hooks "
                "counted at least one match/rep symbol or one uncompressed chunk in a case of that cell.",
        "manifest": {
            "text": "Exploration: thousands of seeded (data, options, container, call history) cases per run are round-tripped "
                    "through the real writers and readers in a release and a debug-assertion build; hook counters prove that "
                    "every symbol kind, both LZMA2 chunk kinds, all reset levels, window moves and 31-bit renormalisation "
                    "were executed. Held means held on the cases produced, not for all inputs.",
            "note": "Trusts the harness's LZMA2 walker and the soundness argument of the lz_pos bias hook.",
            "technique": "runtime monitoring: differential round-trip oracle + hook coverage counters + crate debug_asserts",
        },
        "assumptions": [WALKERS, "lz_pos bias hook: starting the match finder position counter near 2^31 is equivalent "
                        "to an encoder that has already consumed that many bytes (empty tables)"],
    },
    "C02": {
        "level": "exploration",
        "variants": {
            "quick": [("rel", {}), ("dbg", {})],
            "thorough": [("rel", {"timeout": 4 * 3600}), ("dbg", {"timeout": 4 * 3600})],
        },
        "floors": ["xz_block_start", "lzip_member_start"],
        "rule": "case = (data family x length x container {XZ: check None/CRC32/CRC64/SHA-256, block size unset/<=dict/"
                "<input/>=input, 0-3 pre-filters; LZIP: member size classes, dictionary sizes representable and not) x "
                "in-range LZMA options x write partition with flushes x read-buffer sequence); own writer -> harness walker "
                "(blocks/members partition the input in order: per-unit check field equals the checksum of the matching "
                "input slice) -> own reader must return the input. Cell = format|check|size class|filter chain shape|dict "
                "representability|family|length class|write shape; non-trivial = non-empty input.",
        "manifest": {
            "text": "Exploration of the container option space with the real XZ/LZIP writers and readers; unit boundaries are "
                    "judged by walkers that share no code with the crate, so loss, duplication or reordering at block and "
                    "member boundaries is observable even if the crate's reader were to mirror a writer bug.",
            "note": "Trusts the harness walkers and the crc / sha2 crates used to recompute unit checks.",
            "technique": "runtime monitoring: round-trip oracle + independent structure walkers over the produced files",
        },
        "assumptions": [WALKERS],
    },
    "C03": {
        "level": "exploration",
        "variants": {
            "quick": [("rel", {})],
            "thorough": [("rel", {"timeout": 4 * 3600})],
        },
        "floors": [],
        "rule": "even cases: own writer (.lzma header+size / header+EOS, raw LZMA2 ST and MT, .xz with every check and filter "
                "chain, .lz ST and MT) -> liblzma decoder must reach StreamEnd, consume every byte and return the input; odd "
                "cases: liblzma encoder (alone presets 0-9/extreme and custom lc/lp/pb/dict/nice/mf/mode/depth, raw LZMA2, .xz "
                "with filter chains, checks, FullFlush block boundaries, MT encoder with size fields) -> own reader must return "
                "the input; plus the eight xz-made tests/data/wget-*.xz files. Cell = direction|container|option class|chain|"
                "check|family|length class; non-trivial = non-empty input. .lzma cells with lc+lp>4 are outside liblzma's "
                "domain and counted as skipped, not judged.",
        "manifest": {
            "text": "Exploration with liblzma (xz 5.8) as executable reference model in both directions over thousands of seeded "
                    "(data, option, container) cases per run.",
            "note": "Trusts liblzma. No reference .lz ENCODER exists offline (liblzma only decodes .lz), so liblzma->ours is "
                    "not exercised for LZIP.",
            "technique": "runtime monitoring: differential testing against the reference implementation (liblzma)",
        },
        "assumptions": [LIBLZMA, "liblzma's LZMA_Alone decoder only supports lc+lp<=4; such .lzma files are judged by C01 only",
                        "no reference .lz encoder is available offline: the liblzma->ours direction is not covered for LZIP"],
    },
    "C04": {
        "level": "fault_enumeration",
        "exhaustive": True,
        "variants": {
            "quick": [("rel", {})],
            "thorough": [("rel", {"timeout": 4 * 3600})],
        },
        "floors": [],
        "rule": "for each small base file (XZ with CRC32/CRC64/SHA-256, 1-3 blocks, with and without delta/BCJ filters; LZIP "
                "with 1-4 members incl. empty ones): EVERY single-bit flip at every position (exhaustive), every byte set "
                "to {0x00,0xFF,x+1}, every byte of every header/size/CRC/control/index/footer/trailer field set to "
                "{0,1,0xFF,0x7F,0x80,x+1,x-1,neighbour} with and without CRC32 fix-up, deletion/duplication/insertion/"
                "transposition of 1-100 byte regions at all structure boundaries +-1 and 200 random places, every truncation "
                "length, 64 appended tails; plus batches of non-format strings (random, zeros, 0xFF, magic+garbage, the other "
                "format, damaged magic, text, damaged LZIP header). Readers: XZReader single/multi, LZIPReader (all), "
                "LZIPReaderMT (every 23rd corruption). Oracle: outcome must be Err, Ok(original) or, for LZIP only, "
                "Ok(leading members) when the next member's magic is gone. Cell = format|reader|corruption class|field "
                "class; non-trivial = at least one corruption of the cell was detected by an Err. exhaustive=true refers to "
                "the bit-flip, byte-substitution, field and truncation sweeps of the listed base files only.",
        "manifest": {
            "text": "Fault enumeration: the complete single-bit, single-byte-substitution, per-field and truncation fault "
                    "spaces of 14 (quick) / up to 240 (thorough, cut by the wall budget) small valid files are swept against the real readers; region edits "
                    "and non-format strings are sampled.",
            "note": "Base files come from the crate's own writers (checked by C02/C03); outcomes of panicking or hanging "
                    "readers are not wrong-data outcomes and are counted as not judged here (C06/C09 judge them).",
            "technique": "runtime monitoring: exhaustive fault injection on small files + Err-or-exact oracle",
        },
        "assumptions": [WALKERS, "base files are valid (C02/C03)"],
    },
    "C05": {
        "level": "fault_enumeration",
        "exhaustive": True,
        "variants": {
            "quick": [("rel", {})],
            "thorough": [("rel", {"timeout": 4 * 3600})],
        },
        "floors": ["truncation_points", "read_error_points", "write_error_points"],
        "rule": "for every reader/writer component (.lzma x4 framings, LZMA2 plain/chunked, XZ x4 option sets, LZIP "
                "single/multi member, Delta, 8 BCJ filters, BCJ2 with its 4 streams) and fresh small streams per run: EVERY "
                "truncation point of every framed stream; a persistent source error of kind K at EVERY read-call index "
                "(or byte position) the reader reaches; 60 short-read/Interrupted source plans; a persistent sink error at "
                "EVERY write-call index (sampled beyond 4000 calls) plus a flush error; 40 short-write/Interrupted sink "
                "plans. Oracles: truncated framed stream => Err, never Ok with other bytes, never more than original+4 MiB; "
                "delivered source/sink error => Err of the same kind; short/interrupted I/O => identical decoded / "
                "compressed bytes. Unframed filter input is exempt from the truncation clause; faults never delivered are "
                "counted as not reached. exhaustive=true refers to these per-stream sweeps.",
        "manifest": {
            "text": "Fault enumeration: complete truncation-point, read-call-index and write-call-index sweeps over small "
                    "streams of every component, through fault-injecting Read/Write wrappers driven by the harness's own "
                    "bounded loops.",
            "note": "Streams are regenerated per seed; 'endless' is judged against original+4 MiB on uncorrupted streams only.",
            "technique": "runtime monitoring: exhaustive I/O fault injection per call index + Err-or-exact oracle",
        },
        "assumptions": ["streams produced by the crate's own writers are valid (C01-C03)", "the BCJ2 model encoder"],
    },
    "C06": {
        "level": "exploration",
        "variants": {
            "quick": [("rel", {}), ("dbg", {}), ("dbg0", {})],
            "thorough": [("rel", {"timeout": 5 * 3600}), ("dbg", {"timeout": 5 * 3600}), ("dbg0", {"timeout": 5 * 3600})],
        },
        "floors": ["cases_ending_in_err", "cases_ending_in_ok", "read_calls"],
        "rule": "case = (reader in {LZMAReader x3 constructors, LZMA2Reader, XZReader single/multi, LZIPReader, LZIPReaderMT, "
                "LZMA2ReaderMT, BCJReader x8, DeltaReader, BCJ2Reader} x input class {random/zero/0xFF bytes, byte-level "
                "mutations of a valid stream (flip/set/delete/insert/duplicate/cut), structure-aware field edits with CRC32 "
                "fix-up, .lzma header extremes (props 0-255, dict 0..0xFFFFFFFF, size 0..2^64-1, memory limits), caller "
                "parameters (props, lc/lp/pb up to 9/5/5, dict incl. 0 and unaligned, declared sizes), LZMA2 control/size/"
                "props byte edits, any BCJ start offset incl. 2^31 and 2^32 boundaries, delta distances 1..256, BCJ2 valid "
                "encodings with damage and random sizes, concatenated files} x read buffer size), plus a steering block: "
                "index with 2^63-1 and 2^36 records, dict property 40, 200 000 empty LZIP members (ST and MT), 100 000 empty "
                "XZ streams/blocks, 50 000 one-byte LZMA2 units, 32 MiB decompression bombs for every reader. Monitors: "
                "catch_unwind around constructor + read loop + 3 reads after the end/error; child-process death (SIGSEGV/"
                "SIGABRT) confirmed by a solitary re-run; stuck predicate for the MT readers; allocator monitor: peak bytes "
                "in the call window <= declared dictionary + 8 MiB + 64 x input length. Cell = reader|input class|outcome "
                "class (error message or Ok); non-trivial = the reader produced bytes or an error.",
        "manifest": {
            "text": "Exploration (fuzz-like) over hostile inputs and caller parameters with panic, abort, stack-overflow, "
                    "stuck and allocation monitors, in a release and a debug-assertion build.",
            "note": "A CPU-bound endless loop inside a single read call cannot be told from slow progress by this family: "
                    "it would surface as the shard watchdog (inconclusive), not as a violation.",
            "technique": "runtime monitoring: catch_unwind + child-process isolation + counting global allocator + stuck predicate",
        },
        "assumptions": ["declared dictionary = what the harness's lenient scan of the input (or the caller parameter) yields",
                        "output volume is not judged on corrupt input (a damaged size field legitimately announces more data)"],
    },
    "C07": {
        "level": "exploration",
        "variants": {
            "quick": [("rel", {}), ("dbg", {"scale": 50})],
            "thorough": [("rel", {"timeout": 4 * 3600}), ("dbg", {"timeout": 4 * 3600, "scale": 30})],
        },
        "floors": ["write_partitions", "read_sequences"],
        "rule": "for every writer (LZMA x4 framings, LZMA2 plain/chunked, XZ x4 option sets incl. pre-filters, LZIP, both MT "
                "writers, Delta, 8 BCJ writers) and fresh data per run: 20-40 random write partitions (single write, fixed "
                "sizes 1..100000, log-uniform, with empty writes and flush() every k-th call) must decode to the concatenation "
                "(filter writers: produce the same filtered bytes as one write); for every reader incl. both MT readers and "
                "the filter readers: 24-60 buffer-size sequences (1 byte, primes, 4095..4097, > stream, random, zero-length "
                "reads interleaved and placed before call k, short-reading sources) must yield the bytes of the 64 KiB-buffer "
                "reference read (incl. reads ending exactly at / around the 5000-byte units, the dictionary size and the "
                "4096-byte filter buffer). Window-slide block: for the seven writers whose window slides, a probing encode "
                "(512-byte writes, `window_move` hook counter) finds where the encoder's window moves; 25 call histories put "
                "write boundaries, 1-200-byte writes and flushes into the 15 KB around the first and second move and must "
                "decode to the input. Cell = component|side|shape; non-trivial = at least one alternative history was compared.",
        "manifest": {
            "text": "Exploration over call histories: the same content is pushed through many write partitions and pulled "
                    "through many read-buffer sequences and compared with the single-call reference.",
            "note": "Equality is judged against the component's own single-write / large-buffer result (C01/C02/C11 judge "
                    "that result itself).",
            "technique": "runtime monitoring: metamorphic oracle over call histories (partition / buffer-size invariance)",
        },
        "assumptions": ["single-write encode and 64 KiB-buffer decode are the reference histories"],
    },
    "C08": {
        "level": "exploration",
        "variants": {
            "quick": [("rel", {}), ("tsan", {}), ("miri", {"timeout": 1500})],
            "thorough": [("rel", {"timeout": 4 * 3600}), ("tsan", {"timeout": 4 * 3600}), ("miri", {"timeout": 5 * 3600})],
        },
        "floors": ["out_of_order_runs", "reorder_buffer_runs"],
        "rule": "scenario = (MT type x stream maker {own MT writer, ST writer chunked / unchunked (dependent chunks), preset "
                "dictionary, hand-built uncompressed units, liblzma raw LZMA2; LZIP ST/MT writer, empty members} x worker "
                "count {0,1,2..32,1000} x unit size x data with a unit stamp every 64 bytes x read-buffer sequence x write "
                "partition x seeded failpoint schedule). Oracle: MT writer output decodes with the ST reader and the MT "
                "reader to the written bytes; MT reader output equals the ST reader's output on the same valid stream. "
                "Cell = type/maker|worker class|unit class|length class|data kind; non-trivial = non-empty data.",
        "manifest": {
            "text": "Exploration over inputs, configurations and SAMPLED schedules: real threads with seeded failpoint noise "
                    "at the existing suspension points, a ThreadSanitizer build of the same scenarios and Miri seeds. Evidence "
                    "reports distinct completion orders and schedule hashes actually observed. Interleavings are sampled, never "
                    "enumerated.",
            "note": "The ST reader is the sequential model; schedules come from the OS scheduler + failpoint delays, TSan and "
                    "Miri's seeded scheduler. No deterministic runtime is substituted for std::sync.",
            "technique": "runtime monitoring: differential MT-vs-ST oracle under failpoint schedule noise, TSan, Miri",
        },
        "assumptions": ["ST readers/writers are the sequential model (judged by C01/C02)",
                        "schedules are sampled, not enumerated"],
    },
    "C09": {
        "level": "fault_enumeration",
        "variants": {
            "quick": [("rel", {}), ("tsan", {}), ("miri", {"timeout": 1500})],
            "thorough": [("rel", {"timeout": 4 * 3600}), ("tsan", {"timeout": 4 * 3600}), ("miri", {"timeout": 5 * 3600})],
        },
        "floors": ["fault_corrupt-unit", "fault_truncated", "fault_zero-bytes", "fault_source-error@call",
                   "fault_sink-error", "fault_worker-failure", "fault_worker-failure-during-dispatch"],
        "rule": "scenario = (MT reader x {valid, unit k corrupt, control byte corrupt, truncated at a sampled position, zero "
                "bytes, missing terminator / cut trailer, source error kind K at read call j or at byte b, garbage, a worker "
                "that fails at once while the coordinator is busy cutting 40 000 one-byte units (10 trials per case)} | MT "
                "writer x {no fault, sink error kind K at write call j, short writes, flush error, injected worker failure in "
                "unit k, Interrupted} x write partition, mid-stream flushes, calls after an error) x worker count {1,2,4,16} "
                "x seeded failpoint schedule. Every call runs under a watchdog whose firing only triggers the exact stuck "
                "predicate (all threads sleeping, CPU time constant, in-memory I/O). Oracle: returns; Err whenever the ST "
                "reader fails on the same faulty input; success only with complete data; source/sink error kinds preserved. "
                "Cell = type|fault class|workers; non-trivial = a fault or valid run was judged.",
        "manifest": {
            "text": "Fault enumeration over inputs (fault positions sampled per run from the full space of small streams) "
                    "combined with sampled schedules; termination is decided by an exact stuck predicate, never by a "
                    "missed deadline.",
            "note": "Unbounded 'eventually' is restated as: the call returns, or the process is provably stuck (no runnable "
                    "thread, no external event possible). Schedules are sampled.",
            "technique": "runtime monitoring: fault injection + ST-reader model + stuck predicate over /proc task states",
        },
        "assumptions": ["the ST reader on the same faulty input is the model of 'input incomplete or corrupt'",
                        "stuck predicate: all other threads in state S with constant CPU time over repeated samples while all "
                        "I/O is in memory"],
    },
    "C10": {
        "level": "exploration",
        "variants": {
            "quick": [("rel", {}), ("tsan", {}), ("miri", {"timeout": 1500})],
            "thorough": [("rel", {"timeout": 4 * 3600}), ("tsan", {"timeout": 4 * 3600}), ("miri", {"timeout": 5 * 3600})],
        },
        "floors": ["runs_with_delay_in_steal_window", "workers_started"],
        "rule": "history = construct(requested workers in {0,1,2,3,16,256,257,1000,u32::MAX}) -> {nothing, partial I/O, "
                "mid-unit, all I/O, error, finish} -> drop, for the four MT types, under failpoint delays placed inside the "
                "steal window (between the closed check and the condvar wait) and inside close (between store and notify). "
                "Monitors: drop returns (stuck predicate), WorkerGuard census reaches zero afterwards (a remaining worker "
                "with all threads asleep is a leak), census peak <= clamp(requested,1,256). Cell = type|drop point|requested; "
                "non-trivial = at least one worker thread was started.",
        "manifest": {
            "text": "Exploration over drop/finish histories with scheduling noise aimed at the shutdown hand-shake; the worker "
                    "census hook makes leaked threads observable, Miri turns them into exact deadlock reports.",
            "note": "Census hook counts threads from spawn to exit of the worker closure.",
            "technique": "runtime monitoring: worker census hook + failpoint delays + stuck predicate; Miri deadlock detection",
        },
        "assumptions": ["one MT object at a time per process so that the global census is per instance"],
    },
    "C11": {
        "level": "exploration",
        "variants": {
            "quick": [("rel", {}), ("dbg", {})],
            "thorough": [("rel", {"timeout": 4 * 3600}), ("dbg", {"timeout": 4 * 3600})],
        },
        "floors": ["compared_with_reference", "bcj2_converted"],
        "rule": "BCJ: (8 architectures x aligned start offsets {0, small, around 2^31, around 2^32, random} x data {random, "
                "real executable slice of that architecture, synthetic code dense in its branch opcodes} x lengths "
                "{0..alignment+24, around the 4096-byte reader buffer, up to 300 KB}): own writer (single write) -> own "
                "reader (random buffer sequence, short-reading source) must give the input; own filtered bytes must equal "
                "liblzma's filter output; own reader must invert liblzma's output; liblzma must invert ours. Delta: all 256 "
                "distances every run plus random ones, same four comparisons. BCJ2: model-encoder streams with conversion "
                "probability 0..4/4 over dense x86 code, opcode noise (E8/E9/0F 8x, sites in the last 4 bytes, lengths "
                "around the 256 KiB stream buffer) and real code, read through 1-byte..1 MiB source chunks and random buffers, "
                "must reconstruct the input. Cell = filter|offset class|data kind|tail length; non-trivial = the filter "
                "changed at least one byte (BCJ2: converted at least one site).",
        "manifest": {
            "text": "Exploration with liblzma's filters as reference model (both directions) and, for BCJ2, the harness's "
                    "model encoder as generator of correctly encoded inputs.",
            "note": "BCJ2: no reference encoder exists offline; the model encoder (harness/src/bcj2enc.rs) is the trusted "
                    "base for 'correctly encoded four-stream input'.",
            "technique": "runtime monitoring: differential testing against liblzma filters + inverse-function oracle",
        },
        "assumptions": [LIBLZMA, "BCJ2 model encoder mirrors the 7-Zip BCJ2 stream format"],
    },
    "C12": {
        "level": "exploration",
        "variants": {
            "quick": [("rel", {})],
            "thorough": [("rel", {"timeout": 4 * 3600})],
        },
        "floors": ["xz_streams", "lzip_files"],
        "rule": "XZ: 1-8 streams (own writer with different checks/options/block sizes and liblzma-made, empty ones included) "
                "joined by stream padding {0,4,8,12,16,64,1024} (valid) or {1,2,3,5,6,7,9,1023} / a non-zero byte (invalid): "
                "multi-stream reader must return the concatenation resp. an error; single-stream mode must return exactly "
                "the first stream and leave the source right behind it. LZIP: 1-8 files (single member, 4 KiB members, MT "
                "writer, empty) concatenated: LZIPReader and LZIPReaderMT must return the concatenation. Cell = format|"
                "stream count|padding validity|makers; non-trivial = more than one stream/file.",
        "manifest": {
            "text": "Exploration over stream/member sequences and padding lengths with the concatenation as model.",
            "note": "Component streams come from the crate's writers (C02/C03) and liblzma.",
            "technique": "runtime monitoring: concatenation model oracle + source position monitor",
        },
        "assumptions": [LIBLZMA],
    },
    "C13": {
        "level": "exploration",
        "variants": {
            "quick": [("rel", {}), ("tsan", {}), ("miri", {"timeout": 1500}), ("vg", {"timeout": 1500})],
            "thorough": [("rel", {"timeout": 4 * 3600}), ("tsan", {"timeout": 4 * 3600}), ("miri", {"timeout": 5 * 3600}),
                         ("vg", {"timeout": 5 * 3600})],
        },
        "floors": ["repetitions", "partitions", "mt_runs"],
        "rule": "case = (writer in {LZMA x4 framings, LZMA2 plain / chunked, XZ with and without block size and pre-filters, "
                "LZIP, LZMA2WriterMT, LZIPWriterMT} x in-range options x data family x length). Reference = one write with "
                "the allocator poisoning every fresh non-zeroed block with 0xA5. Variations that must give byte-identical "
                "output: (a) a second run after heap churn with poison 0x3C; (b) 6 random write partitions (LZMA, LZIP, MT "
                "writers always; LZMA2/XZ only without chunk/block size, as the property says); (c) MT writers with 2, 3, 5 "
                "and 16 workers under seeded failpoint schedules; (d) one call sequence with flushes under 1-4 workers; (e) "
                "window-slide partitions (see C07; flush-free histories around the window move found by a probing encode) "
                "for the single-threaded writers. Cell = writer|variation axis; non-trivial = a real "
                "variation was applied (more than one write / more than one unit / non-empty data).",
        "manifest": {
            "text": "Exploration with a metamorphic oracle (same input and options => same bytes) across repetition with a "
                    "poisoning allocator, write partitions, worker counts and sampled schedules; valgrind memcheck on a "
                    "sample adds uninitialised-value detection even when outputs agree.",
            "note": "lz_pos bias on/off is not claimed to leave the output unchanged.",
            "technique": "runtime monitoring: metamorphic determinism oracle + poisoning allocator + failpoint schedules",
        },
        "assumptions": ["schedules are sampled"],
    },
    "C14": {
        "level": "other",
        "custom": "check_c14",
        "floors": [],
        "min_cells": 2,
        "explanation": "Offline checker over recorded transcripts: one producer program (harness_tx) is compiled four times "
                       "against lzma-rust2 built as {std, no_std} x {optimization, no optimization} (hooks on in all four) and "
                       "runs the same seeded case list: encode cases for .lzma/LZMA2/XZ/LZIP with in-range options (a third "
                       "with the lz_pos bias so that 31-bit renormalisation happens inside real encodes, on plain Vec tables "
                       "in the non-optimization builds), the valid decode of each result, four seeded corruptions of each "
                       "result, 1500 tiny LZMA2 chunks whose range-coder data ends inside a direct-bits run, 4000 "
                       "normalisation kernel runs (dispatch, scalar and - through a direct accessor hook, because the "
                       "dispatcher prefers AVX2 on this host - the SSE4.1 twin against the specification max(p-off,0), nothing "
                       "written outside the slice, every slice "
                       "alignment 0..15, lengths 0..70, values around the offset / 0 / i32::MAX) and 3000 decode_direct_bits "
                       "runs on caller-supplied state incl. runs past the end of the buffer. Each line records hash of the "
                       "compressed bytes, or bytes decoded + hash + Ok/error kind in a common vocabulary. The checker demands "
                       "line-by-line equality of the four transcripts and zero specification mismatches.",
        "rule": "see explanation; evaluations = transcript lines compared between the default build and each other build; "
                "cells = line kinds",
        "manifest": {
            "text": "Offline differential check over recorded transcripts of four feature builds of the real crate executing "
                    "the same seeded workload; any differing line is a violation.",
            "note": "aarch64 NEON / asm twins and wasm32 cannot run on this x86-64 host; MT types and liblzma are not part of "
                    "the transcripts (not available in no_std).",
            "technique": "runtime monitoring: offline trace checker (transcript equality across feature configurations)",
            "engine": "lzv_tx",
        },
        "assumptions": ["x86-64 host only (AVX2/SSE4.1 + x86-64 asm vs scalar/portable)"],
    },
    "C15": {
        "level": "exploration",
        "variants": {
            "quick": [("asan", {}), ("rel", {"scale": 30}), ("miri", {"timeout": 1500}), ("vg", {"timeout": 1500})],
            "thorough": [("asan", {"timeout": 5 * 3600}), ("rel", {"timeout": 3600}), ("miri", {"timeout": 5 * 3600}),
                         ("vg", {"timeout": 5 * 3600})],
        },
        "floors": ["unsafe_extend_match", "unsafe_fast_reject", "unsafe_direct_bits_asm", "unsafe_aligned_alloc",
                   "direct_bits_accessor_runs", "normalize", "window_move"],
        "rule": "workload = steering block aimed at the unsafe sites (decode_direct_bits through the accessor hook with "
                "payloads of 0..65531 bytes ending exactly at the end of the chunk buffer and up to 40 x 26 bits past it; "
                "LZMA2 chunks with 5-7 compressed bytes declaring up to 70 000 bytes; encoders whose last match sits 0..7 "
                "bytes before the end of the window, nice_len 8 and 273, preset dictionaries, window moves, lz_pos bias) + "
                "the C01 encoder cases + the C06 hostile decoder cases, all with the `optimization` feature on, executed "
                "under AddressSanitizer, under the release build with shadow assertions (the memory precondition of every "
                "unsafe access restated in safe code), under Miri (asm block skipped through the hook) and under valgrind "
                "memcheck (which sees the asm loads). A sanitizer/Miri/valgrind report or a failed shadow assertion is the "
                "violation; functional failures are judged by C01/C06. Evidence lists per tool how often each unsafe site "
                "executed. Cell = side|component classes; non-trivial = an unsafe site was executed by the case.",
        "manifest": {
            "text": "Sanitizer exploration: the real unsafe paths run under ASan, Miri, valgrind and shadow assertions on "
                    "thousands of encoder inputs and hostile decoder inputs per run; hook counters prove every unsafe site "
                    "was reached under each tool.",
            "note": "A clean sanitizer run is not memory safety: red zones miss intra-object errors (covered only where a "
                    "shadow assertion restates the bound); Miri cannot execute the asm block; aarch64/NEON paths cannot run "
                    "on this host.",
            "technique": "sanitizers: AddressSanitizer + Miri + valgrind memcheck + safe-code shadow assertions at unsafe sites",
        },
        "assumptions": ["x86-64 host: AVX2/SSE4.1 and the x86-64 asm variant only", "Miri runs with the portable direct-bits loop"],
    },
    "C16": {
        "level": "exploration",
        "variants": {
            "quick": [("rel", {})],
            "thorough": [("rel", {"timeout": 4 * 3600})],
        },
        "floors": ["streams_with_trailing_bytes"],
        "rule": "case = (.lzma with end marker / header+size / raw+marker / raw+size, LZMA2 plain and chunked, single-stream "
                "XZ own and liblzma-made) x in-range options x small and medium data (so that every symbol kind ends some "
                "stream) x trailing bytes {none, zeros, random, the same stream again, 0xFF, a stream prefix} x read-buffer "
                "sequences whose last boundary falls 0..8 bytes before the end x {1-byte-per-read, bulk} source. After the "
                "reader returned Ok(0): decoded bytes == input and into_inner() is positioned exactly at the first "
                "trailing byte. Cell = container|trailing kind|source kind|length class; non-trivial = trailing bytes present.",
        "manifest": {
            "text": "Exploration with a position-recording source: the number of bytes a reader pulled from its source is "
                    "observed directly, so over-read and under-read are both visible.",
            "note": "",
            "technique": "runtime monitoring: source position monitor + round-trip oracle",
        },
        "assumptions": [LIBLZMA],
    },
    "C17": {
        "level": "exploration",
        "variants": {
            "quick": [("rel", {"shards": 8})],
            "thorough": [("rel", {"timeout": 4 * 3600, "shards": 4})],
        },
        "floors": ["encoder_measurements", "decoder_measurements", "limit_probes"],
        "rule": "encoder: presets 0-9 and random in-range option vectors over a dictionary grid 4 KiB .. 64 MiB (thorough: "
                ".. 768 MiB) x mode x match finder x lc/lp (LZMA1 up to 8/4): construct LZMAWriter / LZMA2Writer on a "
                "discarding sink, compress 1 B - 300 KB, finish; the counting global allocator records the peak of bytes "
                "allocated inside that window. decoder: the same dictionaries x lc/lp/pb, stream built separately, reader "
                "constructed and drained inside the window. Oracles (factor fixed before measuring): peak <= estimate_KiB x "
                "1024 (sound) and estimate_KiB x 1024 <= 4 x peak + 1 MiB (useful); by_props estimator agrees with the "
                "lc/lp one. limits: .lzma headers (dict 0 .. 0xFFFFFFF0, all lc/lp/pb) x limit {0, need-1, need, need+1, "
                "MAX}: limit < need => Err(OutOfMemory) with <= 64 KiB allocated in the call, limit >= need => Ok. Cell = "
                "side|component|option classes.",
        "manifest": {
            "text": "Exploration of the estimator grid with a counting allocator as the measuring monitor.",
            "note": "Dictionaries >= 1 GiB (2 GiB+) are not measured; the allocator counts requested bytes, not touched pages.",
            "technique": "runtime monitoring: counting global allocator (peak in call window) vs estimator oracle",
        },
        "assumptions": ["peak = bytes requested from the global allocator inside the call window; harness buffers are allocated outside it"],
    },
    "C18": {
        "level": "exploration",
        "variants": {
            "quick": [("rel", {})],
            "thorough": [("rel", {"timeout": 4 * 3600})],
        },
        "floors": ["units_seen", "reader_counts_checked", "expected_size_cases"],
        "rule": "case = (XZWriter block_size | LZIPWriter member_size | LZMA2WriterMT chunk_size | LZIPWriterMT member_size) x "
                "configured size {1, = dict, dict+k, log-uniform, 2 x dict} x dict {4 KiB, 8 KiB, 64 KiB} x input length "
                "{tiny, k x limit, k x limit + r, log-uniform to 1 MB} x write history {one huge write, 1-byte writes, writes "
                "straddling the limit by -3..3, exact-limit writes with flushes, random}. Ground truth: the harness walkers' "
                "per-block / per-member / per-dictionary-reset-run uncompressed sizes. Oracles: no unit larger than "
                "max(configured, dict); MT writers: every unit but the last exactly that size and ceil(len/size) units; "
                "LZMA2ReaderMT::chunk_count / LZIPReaderMT::member_count equal the walker's unit count; plus LZMAWriter with "
                "expected size {equal, smaller, larger, none, 0}: rejects extra bytes, refuses to finish short, header size "
                "field equals bytes written / all-ones. Cell = writer|history|configured class|length class.",
        "manifest": {
            "text": "Exploration over size options and write histories with structural ground truth from independent walkers.",
            "note": "",
            "technique": "runtime monitoring: structural oracle over produced files (walkers) + API outcome checks",
        },
        "assumptions": [WALKERS],
    },
    "C19": {
        "level": "exploration",
        "variants": {
            "quick": [("rel", {}), ("dbg", {})],
            "thorough": [("rel", {"timeout": 4 * 3600}), ("dbg", {"timeout": 4 * 3600})],
        },
        "floors": ["grid_evaluations", "accepted_and_decodable"],
        "rule": "full boundary grid, one deviating field per cell, for 8 writers (LZMAWriter header / header+size / raw, "
                "LZMA2Writer, XZWriter, LZIPWriter, both MT writers) x {Fast/HC4, Normal/BT4}: lc 0..9 x lp 0..5 (all 60 "
                "pairs), pb 0..5, dict {0,1,4095,4096,4097,65535,2^20,2^20+1; LZIP also > 512 MiB}, nice_len {0,1,2,3,4,7,8,9,"
                "272,273,274,300,1000}, depth {i32::MIN,-1,0,1,1000,i32::MAX}, preset dictionary {empty, 1 byte, oversized}, "
                "chunk/block/member size 1, XZ filter chains {delta 0/1/256/257/1000, unaligned BCJ offsets, 4 pre-filters, "
                "LZMA2 listed by the caller}; x inputs {empty, 1 byte, 10 KiB text, 100 KiB random}. Oracle: construct + write "
                "+ finish must return (no panic, no hang); Err is always acceptable for an out-of-range value; Ok obliges "
                "the corresponding reader (given the parameters a container would carry) to return exactly the input. "
                "Signature = writer/field=value/failure, so every hole is a separate finding. The grid is enumerated "
                "completely in every run.",
        "exhaustive": True,
        "manifest": {
            "text": "Exploration by complete enumeration of a fixed option-boundary grid (about 1500 cells x 4 inputs) in a "
                    "release and a debug-assertion build.",
            "note": "exhaustive refers to the listed grid, not to the option space.",
            "technique": "runtime monitoring: boundary-grid enumeration + accept-implies-decodable oracle, child isolation",
        },
        "assumptions": ["an Err from the writer is an acceptable answer to any out-of-range option"],
    },
}


TX_VARIANTS = [("tx-std-opt", "std optimization"), ("tx-std-noopt", "std"), ("tx-nostd-opt", "optimization"),
               ("tx-nostd-noopt", "")]


def build_tx(p, name, features):
    tx = os.path.join(p.root, "harness_tx")
    lock = os.path.join(tx, "Cargo.lock")
    if not os.path.exists(lock):
        import shutil
        shutil.copy(os.path.join(vlib.REPO, "Cargo.lock"), lock)
    env = vlib.base_env()
    env["RUSTFLAGS"] = vlib.GUARD
    env["CARGO_TARGET_DIR"] = os.path.join(p.build, name)
    cmd = ["cargo", "build", "--release", "--offline"]
    if features:
        cmd += ["--features", features]
    r = subprocess.run(cmd, cwd=tx, env=env, stdout=subprocess.PIPE, stderr=subprocess.STDOUT, text=True)
    if r.returncode != 0:
        log(f"[build {name}] FAILED\n" + r.stdout[-3000:])
        return None
    return os.path.join(p.build, name, "release", "lzv_tx")


def check_c14(p, prop, tier, seed, cfg):
    """Offline checker over recorded transcripts of four feature configurations."""
    import shutil
    import time
    import concurrent.futures as cf
    shutil.rmtree(os.path.join(p.replays, prop), ignore_errors=True)
    v = vlib.Verdict(prop, tier, seed, cfg["level"])
    bins = {}
    with cf.ThreadPoolExecutor(max_workers=4) as ex:
        futs = {name: ex.submit(build_tx, p, name, feats) for name, feats in TX_VARIANTS}
        for name, f in futs.items():
            bins[name] = f.result()
    if any(b is None for b in bins.values()):
        v.inconclusive.append("build of a transcript variant failed")
        return vlib.finish(p, v, cfg)
    n_enc = 12000 if tier == "thorough" else 1200
    nsh = 16
    logdir = os.path.join(p.logs, prop)
    shutil.rmtree(logdir, ignore_errors=True)
    os.makedirs(logdir, exist_ok=True)

    def run(name, sh):
        out = os.path.join(logdir, f"{name}.{sh}.txt")
        with open(out, "w") as f:
            r = subprocess.run([bins[name], str(seed), str(n_enc), str(sh), str(nsh)], stdout=f, stderr=subprocess.DEVNULL,
                               timeout=3 * 3600)
        return name, sh, r.returncode, out

    results = {}
    with cf.ThreadPoolExecutor(max_workers=vlib.NCPU) as ex:
        for name, sh, rc, out in ex.map(lambda a: run(*a), [(n, s) for n, _ in TX_VARIANTS for s in range(nsh)]):
            results[(name, sh)] = (rc, out)
            if rc != 0:
                v.inconclusive.append(f"{name} shard {sh} exited with {rc}")
    base = TX_VARIANTS[0][0]
    kinds = {"E": "compressed-bytes", "W": "window-edge-encode", "V": "valid-decode", "D": "corrupt-decode", "T": "tiny-chunk-decode",
             "B": "direct-bits-kernel", "N": "normalize-kernel"}
    lines_compared = 0
    per_kind = {}
    viol = {}
    samples = []
    nspec = {}
    sse41_runs = {}
    roundtrip_fail = 0
    for sh in range(nsh):
        base_lines = [l.rstrip("\n") for l in open(results[(base, sh)][1]) if not l.startswith("#")]
        if sh == 0 and len(samples) < 6:
            samples.extend(base_lines[:3] + [l for l in base_lines if l.startswith(("T ", "B ", "N"))][:3])
        for l in base_lines:
            if l.startswith("V ") and "roundtrip=0" in l:
                roundtrip_fail += 1
        for name, _ in TX_VARIANTS:
            lines = [l.rstrip("\n") for l in open(results[(name, sh)][1]) if not l.startswith("#")]
            for l in lines:
                if l.startswith("NSPEC"):
                    m = l.split()
                    cnt = int(m[2].split("=")[1])
                    if m[1] == "sse41" and len(m) > 3 and m[3].startswith("runs="):
                        sse41_runs[name] = sse41_runs.get(name, 0) + int(m[3].split("=")[1])
                    if cnt:
                        nspec.setdefault((name, m[1]), l)
            if name == base:
                continue
            if len(lines) != len(base_lines):
                viol.setdefault(f"transcript-length-differs {base} vs {name}", []).append(f"{len(base_lines)} vs {len(lines)} lines (shard {sh})")
            for a, b in zip(base_lines, lines):
                if a.startswith("NSPEC"):
                    continue
                lines_compared += 1
                k = kinds.get(a[:1], "other")
                per_kind[k] = per_kind.get(k, 0) + 1
                if a != b:
                    viol.setdefault(f"transcript-differs {k} {base} vs {name}", []).append(f"{a}  ||  {b}")
    for (name, which), l in nspec.items():
        viol.setdefault(f"normalize-{which}-differs-from-specification {name}", []).append(l)
    v.evaluations = lines_compared
    v.held = lines_compared
    for k, n in per_kind.items():
        v.cells[k] = [n, n]
    v.samples = samples
    v.extra["x_lines_compared_per_kind"] = per_kind
    v.extra["x_configurations"] = [f"{n} (features: {f or 'none'} + encoder,xz,lzip)" for n, f in TX_VARIANTS]
    v.extra["x_roundtrip_failures_in_baseline_transcript"] = roundtrip_fail
    v.extra["x_sse41_kernel_runs_against_specification"] = sse41_runs
    for sig, items in viol.items():
        v.violations.append({"sig": sig, "detail": items[0][:600], "desc": f"{len(items)} differing line(s); first shown", "cell": "transcript",
                             "variant": "tx", "idx": -1})
        v.sig_counts[sig] = len(items)
    if lines_compared == 0:
        v.inconclusive.append("no transcript lines were compared")
    return vlib.finish(p, v, cfg)


def setup(p):
    os.makedirs(p.build, exist_ok=True)
    ok = True
    for variant in ["rel", "dbg", "dbg0", "asan", "tsan", "miri"]:
        if vlib.build(p, variant) is None:
            ok = False
    for name, feats in TX_VARIANTS:
        if build_tx(p, name, feats) is None:
            ok = False
    return 0 if ok else 2


def check(p, prop, tier, seed):
    cfg = PROPS.get(prop)
    if cfg is None:
        print(f"INCONCLUSIVE {prop}: no check registered")
        return 2
    custom = cfg.get("custom")
    if custom:
        return globals()[custom](p, prop, tier, seed, cfg)
    return vlib.generic_check(p, prop, tier, seed, cfg)


def replay(p, path):
    with open(path) as f:
        r = json.load(f)
    variant = r.get("variant", "rel")
    b = vlib.build(p, variant)
    if b is None:
        print("INCONCLUSIVE: build failed")
        return 2
    prefix, env, cwd = vlib.shard_cmd(p, b, variant, r.get("seed", 1))
    env["LZV_PANIC_TRACE"] = "1"
    cmd = prefix + ["run", r["property"], "--tier", r["tier"], "--seed", str(r["seed"]), "--shard", "0/1",
                    "--variant", variant, "--only", str(r["idx"])] + list(r.get("extra_args") or [])
    if r.get("scale") is not None:
        cmd += ["--scale", str(r["scale"])]
    print("replaying:", " ".join(cmd))
    out = subprocess.run(cmd, cwd=cwd, env=env, stdout=subprocess.PIPE, text=True)
    viol = False
    for line in out.stdout.splitlines():
        if line.startswith("{"):
            j = json.loads(line)
            if j.get("t") == "violation":
                viol = True
                print("violation reproduced:", j["sig"], "|", j.get("detail", "")[:400])
                print("  case:", j.get("desc", ""))
    if out.returncode != 0:
        print(f"process ended with status {out.returncode}")
        viol = True
    if viol:
        print(f"VIOLATION property={r['property']} replay={path}")
        return 1
    print("no violation on replay")
    return 0
