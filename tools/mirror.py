#!/usr/bin/env python3
"""Creates / removes a scratch mirror (outside /repo and /verif) for long exploratory sweeps:
   <dir>/repo  = detached git worktree of /repo's HEAD
   <dir>/verif = copy of /verif's committed + working files (no build output), with the harness
                 path dependencies rewritten to <dir>/repo
Runs in a mirror never count as evidence; they only tell where to look. Anything a mirror run
reports is re-run with the registered command in /verif against /repo before it is believed.

  mirror.py create <dir>      mirror.py remove <dir>
  mirror.py run <dir> -- ./vcheck check C04 --tier thorough      (sets LZV_REPO + path remapping)
"""
import os
import shutil
import subprocess
import sys

VERIF = os.path.dirname(os.path.dirname(os.path.abspath(__file__)))


def sh(cmd, **kw):
    return subprocess.run(cmd, **kw)


def create(d):
    d = os.path.abspath(d)
    os.makedirs(d, exist_ok=True)
    repo = os.path.join(d, "repo")
    ver = os.path.join(d, "verif")
    if not os.path.exists(repo):
        sh(["git", "-C", "/repo", "worktree", "add", "--detach", "--force", repo, "HEAD"], check=True)
    sh(["rsync", "-a", "--delete", "--exclude", ".build", "--exclude", ".git", "--exclude", "logs", "--exclude", "replays",
        "--exclude", "target", "--exclude", "__pycache__", VERIF + "/", ver + "/"], check=True)
    for rel in ("harness/Cargo.toml", "harness_tx/Cargo.toml"):
        p = os.path.join(ver, rel)
        s = open(p).read().replace('path = "/repo"', f'path = "{repo}"')
        open(p, "w").write(s)
    print(ver)


def env_for(d):
    d = os.path.abspath(d)
    e = dict(os.environ)
    e["LZV_REPO"] = os.path.join(d, "repo")
    # panic locations and sanitizer frames keep the /repo/ prefix the signatures are written against
    e["LZV_EXTRA_RUSTFLAGS"] = f"--remap-path-prefix={os.path.join(d, 'repo')}=/repo"
    return e


def remove(d):
    d = os.path.abspath(d)
    repo = os.path.join(d, "repo")
    if os.path.exists(repo):
        sh(["git", "-C", "/repo", "worktree", "remove", "--force", repo])
    shutil.rmtree(d, ignore_errors=True)
    sh(["git", "-C", "/repo", "worktree", "prune"])


def main():
    a = sys.argv[1:]
    if len(a) >= 2 and a[0] == "create":
        create(a[1])
    elif len(a) >= 2 and a[0] == "remove":
        remove(a[1])
    elif len(a) >= 4 and a[0] == "run" and a[2] == "--":
        r = sh(a[3:], cwd=os.path.join(os.path.abspath(a[1]), "verif"), env=env_for(a[1]))
        return r.returncode
    else:
        print(__doc__)
        return 2
    return 0


if __name__ == "__main__":
    sys.exit(main())
