#!/usr/bin/env python3
"""Collects the validated seeded changes from /tmp/seeded into /verif/seeded/<id>/ (patch.diff, demo.rs,
meta.json) and prints a markdown table of which check caught which change."""
import json
import os
import re
import shutil
import sys

SRCS = ["/tmp/seeded", "/tmp/seeded2", "/tmp/seeded3"]
DST = "/verif/seeded"


ORDER = ["/tmp/seeded/results.batch1.txt", "/tmp/seeded/results.txt", "/tmp/seeded/results.batch3.txt",
         "/tmp/seeded/results.batch4.txt", "/tmp/seeded2/results.txt", "/tmp/seeded2/results2.txt", "/tmp/seeded2/results3.txt",
         "/tmp/seeded3/results.txt", "/tmp/seeded3/results2.txt"]


def parse_results(paths):
    """History per seed and check, oldest run first."""
    res = {}
    for stage, p in enumerate(paths):
        if not os.path.exists(p):
            continue
        cur = None
        for line in open(p, errors="replace"):
            m = re.match(r"=== (\S+) \((.*)\)", line)
            if m:
                cur = m.group(1)
                res.setdefault(cur, {})
                continue
            m = re.match(r"(C\d\d): (\w+) in (\d+)s\s+(\[.*\]) (\[.*?\])\s*$", line)
            if m and cur:
                res[cur].setdefault(m.group(1), []).append(
                    {"verdict": m.group(2), "wall_s": int(m.group(3)), "sigs": m.group(4)[:600], "run": os.path.basename(p)})
    return res


def first_para(text, header_words):
    paras = [x for x in re.split(r"\n\s*\n", text) if x.strip()]
    # a heading that names the trigger: the text below it
    for i, para in enumerate(paras):
        if para.lstrip().startswith("#") and any(w in para.lower() for w in header_words):
            lines = para.strip().split("\n")
            body = " ".join(" ".join(lines[1:]).split())
            j = i + 1
            while len(body) < 200 and j < len(paras) and not paras[j].lstrip().startswith("#"):
                body += " " + " ".join(paras[j].split())
                j += 1
            if body.strip():
                return body.strip()[:900]
    for para in paras:
        if not para.lstrip().startswith("#") and any(w in para.lower() for w in header_words):
            return " ".join(para.split())[:900]
    return " ".join(text.split())[:500]


def main():
    if not os.path.isdir(SRCS[0]):
        print("historical tool: the run logs of rounds 1-3 under /tmp are gone; use seed_meta.py / fill_design.py")
        return
    results = parse_results(ORDER)
    rows = []
    os.makedirs(DST, exist_ok=True)
    dirs = []
    for src in SRCS:
        for prop in sorted(os.listdir(src)):
            d = os.path.join(src, prop)
            if os.path.isdir(d) and re.match(r"C\d\d$", prop):
                dirs.append((prop, d))
    for prop, d in sorted(dirs):
        for x in sorted(os.listdir(d)):
            sd = os.path.join(d, x)
            if not os.path.isfile(os.path.join(sd, "patch.diff")):
                continue
            sid = f"{prop}-{x}"
            confirm = {}
            cj = os.path.join(sd, "confirm.json")
            if os.path.exists(cj) and os.path.getsize(cj) > 0:
                try:
                    confirm = json.load(open(cj))
                except Exception:
                    confirm = {}
            override = os.path.join(sd, "confirm.manual.json")
            if os.path.exists(override):
                confirm = json.load(open(override))
            det = results.get(f"{prop}/{x}", {})
            notes = open(os.path.join(sd, "notes.md"), errors="replace").read() if os.path.exists(os.path.join(sd, "notes.md")) else ""
            out = os.path.join(DST, sid)
            os.makedirs(out, exist_ok=True)
            shutil.copy(os.path.join(sd, "patch.diff"), os.path.join(out, "patch.diff"))
            if os.path.exists(os.path.join(sd, "patch.orig.diff")):
                shutil.copy(os.path.join(sd, "patch.orig.diff"), os.path.join(out, "patch.orig.diff"))
            if os.path.exists(os.path.join(sd, "demo.rs")):
                shutil.copy(os.path.join(sd, "demo.rs"), os.path.join(out, "demo.rs"))
            if notes:
                open(os.path.join(out, "notes.md"), "w").write(notes)
            caught = sorted(k for k, v in det.items() if v and v[-1]["verdict"] == "DETECTED")
            missed = sorted(k for k, v in det.items() if v and v[-1]["verdict"] == "MISSED")
            strengthened = sorted(k for k, v in det.items() if v and v[-1]["verdict"] == "DETECTED" and any(x["verdict"] == "MISSED" for x in v[:-1]))
            meta = {
                "id": sid,
                "property_broken": prop,
                "source": "independent sub-agent given only the property text and a scratch worktree",
                "needs_to_manifest": first_para(notes, ["to manifest", "manifest", "trigger", "needs"]),
                "confirmed_in_scratch_worktree": {
                    "demo_passes_on_unchanged_tree": confirm.get("demo_on_clean_tree"),
                    "demo_fails_with_change": confirm.get("demo_with_patch"),
                    "builds_default": confirm.get("builds_default"),
                    "builds_no_std": confirm.get("builds_no_std"),
                    "existing_suite_with_change": confirm.get("suite"),
                    "unexpected_suite_failures": confirm.get("suite_unexpected_failures"),
                    "confirmed": confirm.get("confirmed"),
                    "how": "tools/confirm_seed.py <scratch worktree> <seed dir> (git apply; cargo build x2; cargo test --test seeded_demo; cargo nextest run)",
                },
                "checks_run_against_it": det,
                "how_checks_were_run": "tools/seedtest.py patch.diff <checks> (git -C /repo apply; ./vcheck check Cxx --tier quick; git -C /repo checkout -- .)",
                "detected_by": caught,
                "missed_by": missed,
                "missed_at_first_and_detected_after_strengthening": strengthened,
            }
            json.dump(meta, open(os.path.join(out, "meta.json"), "w"), indent=1)
            rows.append((sid, confirm.get("confirmed"), caught, missed, strengthened, meta["needs_to_manifest"][:160]))
    print(design_table())


def design_table():
    """Markdown table for DESIGN.md section 12.1, from the meta.json files."""
    rows = []
    for d in sorted(os.listdir(DST)):
        mp = os.path.join(DST, d, "meta.json")
        if not os.path.exists(mp):
            continue
        m = json.load(open(mp))
        notes = os.path.join(DST, d, "notes.md")
        title = open(notes).readline().strip().lstrip("# ") if os.path.exists(notes) else ""
        title = re.sub(r"^C\d\d\s*/\s*(change\s*)?[ABCD]\s*[-:]\s*", "", title)
        files = [l[6:].strip() for l in open(os.path.join(DST, d, "patch.diff")) if l.startswith("+++ b/")]
        sig = {}
        for k, v in m["checks_run_against_it"].items():
            if v and v[-1]["verdict"] == "DETECTED":
                first = re.findall(r"'([^']*)'|\"([^\"]*)\"", v[-1]["sigs"])
                sig[k] = (first[0][0] or first[0][1]) if first else ""
        det = ", ".join(f"{k} (`{sig.get(k, '')[:70]}`)" for k in m["detected_by"])
        st = ", ".join(m["missed_at_first_and_detected_after_strengthening"])
        conf = "yes" if m["confirmed_in_scratch_worktree"].get("confirmed") else "NO"
        rows.append(f"| {d} | {title} (`{', '.join(files)}`) | {conf} | {det or '-'} | {', '.join(m['missed_by']) or '-'} | {st or '-'} |")
    return ("| id | change | confirmed | caught by (first signature) | still missed by | caught only after strengthening |\n"
            "|---|---|---|---|---|---|\n" + "\n".join(rows))


if __name__ == "__main__":
    main()
