#!/usr/bin/env python3
"""Writes /verif/seeded/<id>/meta.json for a seeded change of round 4 and later from
   /var/tmp/seedwork/confirm_<id>.json (tools/confirm_seed.py) and /var/tmp/seedwork/runs_<id>.jsonl
   (appended by tools/seedtest.py).   Usage: seed_meta.py <id> [<id> ...]"""
import json
import os
import sys

sys.path.insert(0, os.path.dirname(os.path.abspath(__file__)))
from collect_seeds import first_para  # noqa: E402

DST = "/verif/seeded"


def main():
    for sid in sys.argv[1:]:
        out = os.path.join(DST, sid)
        confirm = {}
        cj = f"/var/tmp/seedwork/confirm_{sid}.json"
        if os.path.exists(cj):
            for line in open(cj):
                if line.startswith("{"):
                    confirm = json.loads(line)
        det = {}
        rj = f"/var/tmp/seedwork/runs_{sid}.jsonl"
        if os.path.exists(rj):
            for line in open(rj):
                j = json.loads(line)
                for prop, r in j["results"].items():
                    det.setdefault(prop, []).append({"verdict": r["verdict"], "wall_s": int(r["wall_s"]), "sigs": str(r["sigs"])[:600],
                                                     "run": f"{j.get('tier', 'quick')} tier, {j.get('at', '')}"})
        old = {}
        if os.path.exists(os.path.join(out, "meta.json")):
            old = json.load(open(os.path.join(out, "meta.json")))
            if not confirm:
                confirm = None
        notes = open(os.path.join(out, "notes.md"), errors="replace").read() if os.path.exists(os.path.join(out, "notes.md")) else ""
        caught = sorted(k for k, v in det.items() if v and v[-1]["verdict"] == "DETECTED")
        missed = sorted(k for k, v in det.items() if v and v[-1]["verdict"] == "MISSED")
        strengthened = sorted(k for k, v in det.items() if v and v[-1]["verdict"] == "DETECTED" and any(x["verdict"] == "MISSED" for x in v[:-1]))
        meta = {
            "id": sid,
            "property_broken": sid.split("-")[0],
            "source": "independent sub-agent given only the property text and a scratch worktree",
            "needs_to_manifest": first_para(notes, ["to manifest", "manifest", "trigger", "needs"]),
            "confirmed_in_scratch_worktree": old.get("confirmed_in_scratch_worktree") if confirm is None else {
                "demo_passes_on_unchanged_tree": confirm.get("demo_on_clean_tree"),
                "demo_fails_with_change": confirm.get("demo_with_patch"),
                "builds_default": confirm.get("builds_default"),
                "builds_no_std": confirm.get("builds_no_std"),
                "existing_suite_with_change": confirm.get("suite"),
                "unexpected_suite_failures": confirm.get("suite_unexpected_failures"),
                "confirmed": confirm.get("confirmed"),
                "how": "tools/confirm_seed.py <scratch worktree> <seed dir> (git apply; cargo build x2; cargo test --test seeded_demo; cargo nextest run)",
            },
            "checks_run_against_it": det,
            "how_checks_were_run": "tools/seedtest.py patch.diff <checks> (git -C /repo apply; ./vcheck check Cxx --tier quick; git -C /repo checkout -- .)",
            "detected_by": caught,
            "missed_by": missed,
            "missed_at_first_and_detected_after_strengthening": strengthened,
        }
        json.dump(meta, open(os.path.join(out, "meta.json"), "w"), indent=1)
        print(sid, "confirmed=", (meta["confirmed_in_scratch_worktree"] or {}).get("confirmed"), "caught", caught, "missed", missed, "strengthened", strengthened)


if __name__ == "__main__":
    main()
