"""Runner library: builds, shard fan-out, aggregation, known findings, evidence, verdicts."""
import hashlib
import json
import os
import re
import shutil
import signal
import subprocess
import sys
import time

NCPU = min(16, os.cpu_count() or 4)
REPO = os.environ.get("LZV_REPO", "/repo")
GUARD = "--cfg lzma_rust2_verif"
# only set by tools/mirror.py (scratch mirrors for exploratory sweeps): path remapping so that panic
# locations keep the /repo/ prefix
if os.environ.get("LZV_EXTRA_RUSTFLAGS"):
    GUARD = GUARD + " " + os.environ["LZV_EXTRA_RUSTFLAGS"].strip()


def log(*a):
    print(*a, file=sys.stderr, flush=True)


def base_env():
    e = dict(os.environ)
    e["CARGO_NET_OFFLINE"] = "true"
    e.setdefault("CARGO_TERM_COLOR", "never")
    e.pop("RUSTFLAGS", None)
    return e


class Paths:
    def __init__(self, root):
        self.root = root
        self.build = os.path.join(root, ".build")
        self.harness = os.path.join(root, "harness")
        self.logs = os.path.join(root, "logs")
        self.evidence = os.path.join(root, "evidence")
        self.replays = os.path.join(root, "replays")
        self.known = os.path.join(root, "KNOWN_FINDINGS.txt")


# ------------------------------------------------------------------------------------------------
# Builds
# ------------------------------------------------------------------------------------------------

VARIANTS = {
    # name: (toolchain args, cargo args, rustflags, binary relpath)
    "rel": ([], ["build", "--release"], GUARD, "release/lzv"),
    "dbg": ([], ["build"], GUARD, "debug/lzv"),
    # unoptimised (opt-level 0) debug build: what `cargo test` runs; recursion is not turned into loops
    "dbg0": ([], ["build"], GUARD, "debug/lzv"),
    "asan": (
        ["+nightly"],
        ["build", "--release", "--target", "x86_64-unknown-linux-gnu"],
        GUARD + " -Zsanitizer=address -Cforce-frame-pointers=yes",
        "x86_64-unknown-linux-gnu/release/lzv",
    ),
    "tsan": (
        ["+nightly"],
        ["build", "--release", "--target", "x86_64-unknown-linux-gnu", "-Zbuild-std", "--no-default-features"],
        GUARD + " -Zsanitizer=thread -Cforce-frame-pointers=yes",
        "x86_64-unknown-linux-gnu/release/lzv",
    ),
}


def ensure_lock(p):
    lock = os.path.join(p.harness, "Cargo.lock")
    if not os.path.exists(lock):
        shutil.copy(os.path.join(REPO, "Cargo.lock"), lock)


def build(p, variant):
    """Builds a variant from /repo's current working tree; returns the binary path (or None)."""
    ensure_lock(p)
    if variant == "vg":
        return build(p, "rel")
    if variant == "miri":
        return build_miri(p)
    tc, cargo_args, flags, rel = VARIANTS[variant]
    target = os.path.join(p.build, variant)
    env = base_env()
    env["RUSTFLAGS"] = flags
    env["CARGO_TARGET_DIR"] = target
    if variant == "dbg0":
        env["CARGO_PROFILE_DEV_OPT_LEVEL"] = "0"
    cmd = ["cargo"] + tc + cargo_args + ["--offline", "--bin", "lzv"]
    t0 = time.time()
    r = subprocess.run(cmd, cwd=p.harness, env=env, stdout=subprocess.PIPE, stderr=subprocess.STDOUT, text=True)
    if r.returncode != 0:
        log(f"[build {variant}] FAILED\n" + r.stdout[-4000:])
        return None
    log(f"[build {variant}] ok in {time.time() - t0:.1f}s")
    return os.path.join(target, rel)


MIRI_FLAGS = "-Zmiri-disable-isolation -Zmiri-ignore-leaks"


def miri_env(p, seed=0, extra=""):
    env = base_env()
    env["RUSTFLAGS"] = GUARD
    env["CARGO_TARGET_DIR"] = os.path.join(p.build, "miri")
    env["MIRIFLAGS"] = f"-Zmiri-disable-isolation -Zmiri-seed={seed} {extra}".strip()
    return env


def build_miri(p):
    env = miri_env(p)
    cmd = ["cargo", "+nightly", "miri", "run", "--offline", "--no-default-features", "--bin", "lzv", "--", "count", "C00"]
    t0 = time.time()
    r = subprocess.run(cmd, cwd=p.harness, env=env, stdout=subprocess.PIPE, stderr=subprocess.STDOUT, text=True)
    if r.returncode != 0:
        log("[build miri] FAILED\n" + r.stdout[-4000:])
        return None
    log(f"[build miri] ok in {time.time() - t0:.1f}s")
    return "MIRI"


def shard_cmd(p, binary, variant, seed=0, miri_extra=""):
    """Command prefix + env that runs the harness binary for a variant."""
    env = base_env()
    if variant == "miri":
        env = miri_env(p, seed, miri_extra)
        return (["cargo", "+nightly", "miri", "run", "-q", "--offline", "--no-default-features", "--bin", "lzv", "--"], env, p.harness)
    if variant == "vg":
        return (
            ["valgrind", "--quiet", "--error-exitcode=97", "--track-origins=no", "--leak-check=no", binary],
            env,
            p.root,
        )
    if variant == "asan":
        env["ASAN_OPTIONS"] = "detect_leaks=0:halt_on_error=1:abort_on_error=1:allocator_may_return_null=1:symbolize=1"
        env["ASAN_SYMBOLIZER_PATH"] = shutil.which("llvm-symbolizer-14") or shutil.which("llvm-symbolizer") or ""
    if variant == "tsan":
        env["TSAN_OPTIONS"] = "halt_on_error=1:exitcode=66:second_deadlock_stack=1"
    return ([binary], env, p.root)


# ------------------------------------------------------------------------------------------------
# Shards
# ------------------------------------------------------------------------------------------------

SIGNAMES = {getattr(signal, n).value: n for n in dir(signal) if n.startswith("SIG") and not n.startswith("SIG_")}


class ShardResult:
    def __init__(self):
        self.records = []  # violation records
        self.summaries = []
        self.crashes = []  # dicts
        self.inconclusive = []  # strings
        self.sanitizer_reports = []  # dicts


def parse_out(path, res):
    try:
        with open(path, "r", errors="replace") as f:
            for line in f:
                line = line.strip()
                if not line.startswith("{"):
                    continue
                try:
                    j = json.loads(line)
                except Exception:
                    continue
                if j.get("t") == "violation":
                    res.records.append(j)
                elif j.get("t") == "summary":
                    res.summaries.append(j)
                    return True
    except FileNotFoundError:
        pass
    return False


def run_shards(p, prop, variant, tier, seed, nshards, binary, extra_args=None, timeout=1800, env_extra=None,
               miri_extra="", scale=None):
    """Runs `nshards` shard processes in parallel (at most NCPU at a time). A shard that dies is
    re-run from the case after the one that killed it; the killing case is re-run alone to confirm."""
    extra_args = extra_args or []
    logdir = os.path.join(p.logs, prop, variant)
    shutil.rmtree(logdir, ignore_errors=True)
    os.makedirs(logdir, exist_ok=True)
    res = ShardResult()
    prefix, env, cwd = shard_cmd(p, binary, variant, seed, miri_extra)
    if env_extra:
        env.update(env_extra)

    def launch(i, start_from=None, attempt=0):
        nonlocal prefix, env, cwd
        if variant == "miri":
            # every shard is its own sampled schedule: distinct Miri seed and preemption rate
            rate = ["0.01", "0.05", "0.2", "0.5"][i % 4]
            prefix, env, cwd = shard_cmd(p, binary, variant, seed * 1000 + i,
                                         (miri_extra + f" -Zmiri-preemption-rate={rate}").strip())
            if env_extra:
                env.update(env_extra)
        out = os.path.join(logdir, f"s{i}.a{attempt}.jsonl")
        prog = os.path.join(logdir, f"s{i}.a{attempt}.progress")
        err = os.path.join(logdir, f"s{i}.a{attempt}.stderr")
        cmd = prefix + ["run", prop, "--tier", tier, "--seed", str(seed), "--shard", f"{i}/{nshards}",
                        "--variant", variant, "--out", out, "--progress", prog] + extra_args
        if scale is not None:
            cmd += ["--scale", str(scale)]
        if start_from is not None:
            cmd += ["--from", str(start_from)]
        ef = open(err, "wb")
        pr = subprocess.Popen(cmd, cwd=cwd, env=env, stdout=subprocess.DEVNULL, stderr=ef)
        return {"i": i, "proc": pr, "out": out, "prog": prog, "err": err, "t0": time.time(), "attempt": attempt, "ef": ef}

    pending = list(range(nshards))
    running = []
    deadline_each = timeout
    while pending or running:
        while pending and len(running) < NCPU:
            running.append(launch(pending.pop(0)))
        time.sleep(0.05)
        still = []
        for r in running:
            rc = r["proc"].poll()
            if rc is None:
                if time.time() - r["t0"] > deadline_each:
                    r["proc"].kill()
                    r["proc"].wait()
                    r["ef"].close()
                    parse_out(r["out"], res)
                    idx = read_progress(r["prog"])
                    res.inconclusive.append(f"{variant} shard {r['i']}: watchdog fired after {deadline_each}s at case {idx}")
                else:
                    still.append(r)
                continue
            r["ef"].close()
            done = parse_out(r["out"], res)
            if rc == 0 and done:
                continue
            # abnormal end
            idx = read_progress(r["prog"])
            tail = read_tail(r["err"])
            san = classify_sanitizer(tail, variant, rc)
            signame = SIGNAMES.get(-rc, str(rc)) if rc < 0 else f"exit{rc}"
            if idx is None:
                res.inconclusive.append(f"{variant} shard {r['i']}: died ({signame}) before the first case: {tail[-300:]}")
                continue
            crash = {"variant": variant, "idx": idx, "signal": signame, "stderr_tail": tail[-1500:], "san": san}
            res.crashes.append(crash)
            if r["attempt"] < 25:
                still.append(launch(r["i"], start_from=idx + nshards, attempt=r["attempt"] + 1))
            else:
                res.inconclusive.append(f"{variant} shard {r['i']}: more than 25 crashes, shard abandoned")
        running = still
    return res


def read_progress(path):
    try:
        with open(path) as f:
            s = f.read().strip()
        return int(s) if s else None
    except Exception:
        return None


def read_tail(path, n=6000):
    try:
        with open(path, "rb") as f:
            f.seek(0, 2)
            size = f.tell()
            f.seek(max(0, size - n))
            return f.read().decode("utf-8", "replace")
    except Exception:
        return ""


def classify_sanitizer(tail, variant, rc):
    if "AddressSanitizer" in tail:
        m = re.search(r"ERROR: AddressSanitizer: (\S+)", tail)
        frames = re.findall(r"#\d+ 0x[0-9a-f]+ in (\S+) (\S+)", tail)
        first_repo = next((f"{fn}@{os.path.basename(loc)}" for fn, loc in frames if "/repo/src" in loc), None)
        return {"tool": "asan", "kind": m.group(1) if m else "?", "frame": first_repo}
    if "ThreadSanitizer" in tail:
        m = re.search(r"WARNING: ThreadSanitizer: ([^\(\n]+)", tail)
        frames = re.findall(r"#\d+ (\S+) (\S+)", tail)
        first_repo = next((f"{fn}@{os.path.basename(loc)}" for fn, loc in frames if "/repo/src" in loc), None)
        return {"tool": "tsan", "kind": (m.group(1).strip() if m else "?"), "frame": first_repo}
    if "Undefined Behavior" in tail or "error: Undefined Behavior" in tail:
        m = re.search(r"error: Undefined Behavior: ([^\n]+)", tail)
        loc = re.search(r"--> (/repo/src/[^\n]+)", tail)
        return {"tool": "miri", "kind": m.group(1)[:120] if m else "UB", "frame": loc.group(1) if loc else None}
    if "unsupported operation" in tail:
        m = re.search(r"unsupported operation: ([^\n]+)", tail)
        return {"tool": "miri", "kind": "unsupported", "frame": m.group(1)[:100] if m else None}
    if "the evaluated program deadlocked" in tail:
        return {"tool": "miri", "kind": "deadlock", "frame": None}
    if "main thread terminated without waiting" in tail:
        return {"tool": "miri", "kind": "leaked-thread", "frame": None}
    if variant == "vg" and rc == 97:
        m = re.search(r"==\d+== (Invalid (?:read|write) of size \d+|Conditional jump[^\n]+|Use of uninitialised[^\n]+)", tail)
        loc = re.search(r"\((\w+\.rs:\d+)\)", tail)
        return {"tool": "valgrind", "kind": m.group(1) if m else "error", "frame": loc.group(1) if loc else None}
    return None


def confirm_crash(p, prop, variant, tier, seed, idx, binary, extra_args=None, timeout=600, miri_extra="", scale=None,
                  env_extra=None):
    """Re-runs one case alone. Returns (confirmed: bool, signame, tail, describe_text)."""
    prefix, env, cwd = shard_cmd(p, binary, variant, seed, miri_extra)
    if env_extra:
        env.update(env_extra)
    env["LZV_PHASE"] = "1"
    cmd = prefix + ["run", prop, "--tier", tier, "--seed", str(seed), "--shard", "0/1", "--variant", variant,
                    "--only", str(idx)] + (extra_args or [])
    if scale is not None:
        cmd += ["--scale", str(scale)]
    try:
        r = subprocess.run(cmd, cwd=cwd, env=env, stdout=subprocess.PIPE, stderr=subprocess.PIPE, timeout=timeout)
    except subprocess.TimeoutExpired:
        return (None, "timeout", "", "")
    tail = r.stderr.decode("utf-8", "replace")[-6000:]
    if r.returncode == 0:
        return (False, "exit0", tail, r.stdout.decode("utf-8", "replace"))
    signame = SIGNAMES.get(-r.returncode, str(r.returncode)) if r.returncode < 0 else f"exit{r.returncode}"
    return (True, signame, tail, r.stdout.decode("utf-8", "replace"))


def describe_case(p, prop, variant, tier, seed, idx, binary, scale=None):
    prefix, env, cwd = shard_cmd(p, binary, "rel" if variant in ("asan", "tsan", "vg", "dbg", "dbg0", "rel") else variant, seed)
    if variant in ("asan", "tsan"):
        prefix, env, cwd = shard_cmd(p, binary, variant, seed)
    cmd = prefix + ["describe", prop, "--tier", tier, "--seed", str(seed), "--variant", variant, "--only", str(idx)]
    if scale is not None:
        cmd += ["--scale", str(scale)]
    try:
        r = subprocess.run(cmd, cwd=cwd, env=env, stdout=subprocess.PIPE, stderr=subprocess.DEVNULL, timeout=120)
        for line in r.stdout.decode("utf-8", "replace").splitlines():
            if line.startswith("{"):
                return json.loads(line)
    except Exception:
        pass
    return {}


# ------------------------------------------------------------------------------------------------
# Known findings
# ------------------------------------------------------------------------------------------------

def load_known(p):
    """Returns {(property, sig): text} for `open:` entries."""
    known = {}
    try:
        with open(p.known) as f:
            for line in f:
                line = line.rstrip("\n")
                if not line.startswith("open:"):
                    continue
                m = re.match(r"open:\s+property=(\S+)\s+sig=(.*?)\s+::\s+(.*)$", line)
                if m:
                    known[(m.group(1), m.group(2).strip())] = m.group(3).strip()
    except FileNotFoundError:
        pass
    return known


# ------------------------------------------------------------------------------------------------
# Aggregation + verdict
# ------------------------------------------------------------------------------------------------

class Verdict:
    def __init__(self, prop, tier, seed, level):
        self.prop = prop
        self.tier = tier
        self.seed = seed
        self.level = level
        self.t0 = time.time()
        self.evaluations = 0
        self.held = 0
        self.skipped = 0
        self.skip_reasons = {}
        self.cells = {}  # cell -> [evals, nontrivial]
        self.samples = []
        self.counters = {}
        self.per_variant = {}
        self.violations = []  # dicts: sig, detail, desc, variant, idx
        self.sig_counts = {}
        self.inconclusive = []
        self.extra = {}
        self.sets = {}
        self.notes = []

    def add(self, variant, res, tier=None):
        pv = self.per_variant.setdefault(variant, {"evaluations": 0, "violating_cases": 0, "wall_s": 0.0, "shards": 0})
        for s in res.summaries:
            self.evaluations += s["evaluations"]
            self.held += s["held"]
            self.skipped += s["skipped"]
            pv["evaluations"] += s["evaluations"]
            pv["violating_cases"] += s["violations"]
            pv["wall_s"] = max(pv["wall_s"], float(s.get("wall_s", 0)))
            pv["shards"] += 1
            for k, v in s.get("skips", {}).items():
                self.skip_reasons[k] = self.skip_reasons.get(k, 0) + v
            for k, v in s["cells"].items():
                c = self.cells.setdefault(k, [0, 0])
                c[0] += v[0]
                c[1] += v[1]
            for k, v in s.get("counters", {}).items():
                self.counters[k] = self.counters.get(k, 0) + v
                if k.startswith("unsafe_") or k in ("direct_bits_portable", "normalize", "window_move", "shadow_failed"):
                    pc = pv.setdefault("hook_counters", {})
                    pc[k] = pc.get(k, 0) + v
            for k, v in s.get("sigs", {}).items():
                self.sig_counts[k] = self.sig_counts.get(k, 0) + v
            for smp in s.get("samples", []):
                if len(self.samples) < 12:
                    self.samples.append(f"({variant}) {smp}")
            for k, v in s.items():
                if k.startswith("xs_"):
                    self.sets.setdefault(k[3:], set()).update(v)
                elif k.startswith("xm_"):
                    self.extra[k] = max(self.extra.get(k, 0), v)
                elif k.startswith("x_"):
                    if isinstance(v, (int, float)):
                        self.extra[k] = self.extra.get(k, 0) + v
                    elif isinstance(v, dict):
                        d = self.extra.setdefault(k, {})
                        for kk, vv in v.items():
                            if isinstance(vv, (int, float)):
                                d[kk] = d.get(kk, 0) + vv
                            else:
                                d[kk] = vv
                    elif isinstance(v, list):
                        self.extra.setdefault(k, [])
                        if len(self.extra[k]) < 40:
                            self.extra[k].extend(v[: 40 - len(self.extra[k])])
        for r in res.records:
            self.violations.append({"sig": r["sig"], "detail": r.get("detail", ""), "desc": r.get("desc", ""),
                                    "cell": r.get("cell", ""), "variant": variant, "idx": r["idx"]})
        self.inconclusive.extend(res.inconclusive)

    def distinct_nontrivial(self):
        return sum(1 for v in self.cells.values() if v[1] > 0)


def finish(p, v, cfg, scale=None):
    """Applies known findings, writes evidence and replay files, prints the verdict lines, returns the
    exit status."""
    known = load_known(p)
    os.makedirs(p.evidence, exist_ok=True)
    by_sig = {}
    for x in v.violations:
        by_sig.setdefault(x["sig"], []).append(x)
    # signatures that were counted but whose records were not printed (cap) still appear in sig_counts
    for sig in v.sig_counts:
        by_sig.setdefault(sig, [])
    unlisted = []
    known_hit = []
    for sig, items in sorted(by_sig.items()):
        if (v.prop, sig) in known:
            known_hit.append((sig, known[(v.prop, sig)], v.sig_counts.get(sig, len(items))))
        else:
            unlisted.append((sig, items))
    # coverage floors
    missing = []
    for name in cfg.get("floors", []):
        if v.counters.get(name, 0) == 0 and v.extra.get(name, 0) == 0 and v.extra.get("x_" + name, 0) == 0 \
                and len(v.sets.get(name, ())) == 0:
            missing.append(name)
    if missing:
        v.inconclusive.append("coverage floor not reached: " + ", ".join(missing))
    if v.evaluations == 0:
        v.inconclusive.append("no case was evaluated")
    min_cells = cfg.get("min_cells", 2)
    if v.distinct_nontrivial() < min_cells and v.evaluations > 0:
        v.inconclusive.append(f"only {v.distinct_nontrivial()} distinct non-trivial cells observed")

    wall = time.time() - v.t0
    replay_paths = []
    for sig, items in unlisted:
        item = items[0] if items else {"sig": sig, "detail": "", "desc": "", "variant": "rel", "idx": -1, "cell": ""}
        h = hashlib.sha1((v.prop + sig).encode()).hexdigest()[:12]
        d = os.path.join(p.replays, v.prop)
        os.makedirs(d, exist_ok=True)
        path = os.path.join(d, f"{h}.json")
        with open(path, "w") as f:
            json.dump({"property": v.prop, "tier": v.tier, "seed": v.seed, "variant": item["variant"],
                       "idx": item["idx"], "sig": sig, "detail": item["detail"], "desc": item["desc"],
                       "cell": item.get("cell", ""), "scale": scale,
                       "extra_args": item.get("extra_args", []),
                       "count": v.sig_counts.get(sig, len(items))}, f, indent=1)
        replay_paths.append((sig, path, item))

    coverage = {
        "evaluations": int(v.evaluations),
        "distinct_nontrivial": int(v.distinct_nontrivial()),
        "rule": cfg.get("rule", ""),
        "samples": v.samples[:12] if v.samples else [],
        "cells_total": len(v.cells),
        "held": int(v.held),
        "skipped_not_judged": int(v.skipped),
        "skip_reasons": v.skip_reasons,
        "per_variant": v.per_variant,
        "observed_counters": v.counters,
        "known_findings_hit": [{"sig": s, "text": t, "cases": c} for s, t, c in known_hit],
        "unlisted_violation_signatures": [s for s, _ in unlisted],
        "inconclusive": v.inconclusive,
        "notes": v.notes,
    }
    for k, val in v.extra.items():
        coverage[k.split("_", 1)[1] if k.startswith(("x_", "xm_")) else k] = val
    for k, val in v.sets.items():
        coverage["distinct_" + k] = len(val)
    if cfg.get("exhaustive") is not None:
        coverage["exhaustive"] = bool(cfg["exhaustive"])
    if cfg.get("explanation"):
        coverage["explanation"] = cfg["explanation"]
    ev = {
        "property_id": v.prop,
        "tier": v.tier,
        "seed": int(v.seed),
        "level": v.level,
        "coverage": coverage,
        "assumptions": cfg.get("assumptions", []),
        "wall_s": round(wall, 2),
        "violations": len(unlisted),
    }
    with open(os.path.join(p.evidence, f"{v.prop}.json"), "w") as f:
        json.dump(ev, f, indent=1, sort_keys=False)
    # the latest run of each tier is kept as well (the file above is rewritten by every run)
    with open(os.path.join(p.evidence, f"{v.prop}.{v.tier}.json"), "w") as f:
        json.dump(ev, f, indent=1, sort_keys=False)

    for sig, text, cnt in known_hit:
        print(f"KNOWN-FINDING: property={v.prop} {text} [sig={sig}; {cnt} case(s) this run]")
    for sig, path, item in replay_paths:
        print(f"VIOLATION property={v.prop} replay={path}")
        print(f"  sig: {sig}\n  detail: {item.get('detail', '')[:300]}\n  case: {item.get('desc', '')[:400]}")
    if unlisted:
        print(f"RESULT {v.prop} {v.tier}: VIOLATED ({len(unlisted)} unlisted signature(s)); evaluations={v.evaluations} wall={wall:.0f}s")
        return 1
    if v.inconclusive:
        for s in v.inconclusive:
            print(f"INCONCLUSIVE {v.prop}: {s}")
        print(f"RESULT {v.prop} {v.tier}: INCONCLUSIVE; evaluations={v.evaluations} wall={wall:.0f}s")
        return 2
    print(f"RESULT {v.prop} {v.tier}: held on {v.evaluations} evaluations, {v.distinct_nontrivial()} distinct non-trivial cells, "
          f"{len(known_hit)} known finding(s); wall={wall:.0f}s")
    return 0


# ------------------------------------------------------------------------------------------------
# Generic check: run the property's case stream under a list of variants
# ------------------------------------------------------------------------------------------------

def thorough_budget(variant, opts):
    """Wall budget (seconds) after which a thorough shard starts no further case. VERIF_BUDGET_S overrides."""
    env = os.environ.get("VERIF_BUDGET_S", "").strip()
    if env.isdigit() and int(env) > 0:
        return int(env)
    if "budget" in opts:
        return int(opts["budget"])
    return 600 if variant in ("miri", "vg", "asan") else 420


def generic_check(p, prop, tier, seed, cfg):
    shutil.rmtree(os.path.join(p.replays, prop), ignore_errors=True)
    v = Verdict(prop, tier, seed, cfg["level"])
    plan = cfg["variants"][tier]
    # development aid (tools/mutate.py): restrict a run to some build variants. Never set by the
    # registered commands.
    only = [x for x in os.environ.get("LZV_ONLY_VARIANTS", "").split(",") if x]
    if only:
        plan = [(vv, oo) for vv, oo in plan if vv in only] or plan[:1]
        v.notes.append("restricted to variants " + ",".join(vv for vv, _ in plan) + " by LZV_ONLY_VARIANTS (development run)")
    binaries = {}
    for variant, _ in plan:
        b = build(p, variant)
        if b is None:
            v.inconclusive.append(f"build of variant {variant} failed")
            return finish(p, v, cfg)
        binaries[variant] = b
    for variant, opts in plan:
        nsh = opts.get("shards", NCPU)
        timeout = opts.get("timeout", 900 if tier == "quick" else 6 * 3600)
        scale = opts.get("scale")
        extra_args = list(opts.get("args") or [])
        if tier == "thorough":
            b = thorough_budget(variant, opts)
            extra_args += ["--budget-s", str(b)]
            v.extra.setdefault("wall_budget_s_per_variant", {})[variant] = b
            timeout = max(timeout, b + 3600)
        res = run_shards(p, prop, variant, tier, seed, nsh, binaries[variant], timeout=timeout, scale=scale,
                         env_extra=opts.get("env"), miri_extra=opts.get("miri_extra", ""),
                         extra_args=extra_args)
        handle_crashes(p, v, prop, variant, tier, seed, binaries[variant], res, scale, opts)
        v.add(variant, res)
    return finish(p, v, cfg)


def handle_crashes(p, v, prop, variant, tier, seed, binary, res, scale, opts):
    for c in res.crashes:
        confirmed, signame, tail, _ = confirm_crash(p, prop, variant, tier, seed, c["idx"], binary, scale=scale,
                                                    env_extra=opts.get("env"), miri_extra=opts.get("miri_extra", ""),
                                                    extra_args=opts.get("args"))
        if confirmed is None:
            v.inconclusive.append(f"{variant}: case {c['idx']} killed its shard ({c['signal']}) and timed out when re-run alone")
            continue
        if not confirmed:
            v.inconclusive.append(f"{variant}: case {c['idx']} killed its shard ({c['signal']}) but passed when re-run alone")
            continue
        d = describe_case(p, prop, variant, tier, seed, c["idx"], binary, scale)
        san = classify_sanitizer(tail, variant, 97 if variant == "vg" else -1) or c.get("san")
        if san and san.get("kind") == "unsupported":
            v.inconclusive.append(f"{variant}: case {c['idx']} needs an operation the tool does not support: {san.get('frame')}")
            continue
        if san:
            sig = f"{san['tool']}:{san['kind']} {d.get('component', '')} @{san.get('frame')}"
        else:
            sig = f"crash:{signame} {d.get('component', '')} {d.get('trigger', '')}".strip()
        if signame == "SIGKILL":
            v.inconclusive.append(f"{variant}: case {c['idx']} was SIGKILLed (OOM killer?)")
            continue
        res.records.append({"t": "violation", "idx": c["idx"], "sig": sig, "cell": d.get("cell", "crash"),
                            "detail": tail[-600:], "desc": d.get("desc", f"case {c['idx']}")})
        v.sig_counts[sig] = v.sig_counts.get(sig, 0) + 1


# ------------------------------------------------------------------------------------------------
# main
# ------------------------------------------------------------------------------------------------

def main(root, argv):
    import props_cfg
    p = Paths(root)
    if not argv:
        print(__doc__)
        return 2
    cmd = argv[0]
    if cmd == "setup":
        return props_cfg.setup(p)
    if cmd == "check":
        prop = argv[1]
        tier = os.environ.get("VERIF_TIER", "quick")
        if "--tier" in argv:
            tier = argv[argv.index("--tier") + 1]
        seed = int(os.environ.get("VERIF_SEED", "1") or "1")
        if "--seed" in argv:
            seed = int(argv[argv.index("--seed") + 1])
        seed &= (1 << 63) - 1
        try:
            return props_cfg.check(p, prop, tier, seed)
        except Exception as e:  # harness error: never a violation
            import traceback
            traceback.print_exc()
            print(f"INCONCLUSIVE {prop}: harness error: {e}")
            return 2
    if cmd == "replay":
        return props_cfg.replay(p, argv[1])
    print("unknown command", cmd)
    return 2
