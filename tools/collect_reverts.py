#!/usr/bin/env python3
"""Collects the fix-revert validation (every `fix:` commit of /repo reverted on its own on top of the
current tree, the check of the property it was found under run against it) into
/verif/seeded/reverts/ (the revert patches and reverts.json) and prints a markdown table."""
import json
import os
import re
import shutil
import subprocess

SRC = "/tmp/reverts"
DST = "/verif/seeded/reverts"
FILES = ["results.txt", "results2.txt", "results3.txt"]


def main():
    if not os.path.isdir(SRC):
        print("historical tool: the run logs under /tmp/reverts are gone; reverts.json is kept as it is")
        return
    hist = {}
    order = []
    for f in FILES:
        p = os.path.join(SRC, f)
        if not os.path.exists(p):
            continue
        cur = None
        for line in open(p, errors="replace"):
            m = re.match(r"=== (\S+) \(([^)]*)\)", line)
            if m:
                cur = m.group(1)
                if cur.split(".")[0] not in order:
                    order.append(cur.split(".")[0])
                continue
            m = re.match(r"(C\d\d): (\w+) in (\d+)s\s+(\[.*\]) (\[.*?\])\s*$", line)
            if m and cur:
                hist.setdefault(cur.split(".")[0], []).append(
                    {"patch": cur, "check": m.group(1), "verdict": m.group(2), "wall_s": int(m.group(3)), "sigs": m.group(4)[:500], "run": f})
            if cur and (line.startswith("PATCH DOES NOT APPLY") or line.startswith("PATCHED TREE DOES NOT BUILD")):
                hist.setdefault(cur.split(".")[0], []).append({"patch": cur, "check": "-", "verdict": "NOT-APPLICABLE-AS-IS", "wall_s": 0, "sigs": line.strip(), "run": f})
    os.makedirs(DST, exist_ok=True)
    rows = []
    out = []
    for h in order:
        subj = subprocess.run(["git", "-C", "/repo", "log", "--format=%s", "-1", h], stdout=subprocess.PIPE, text=True).stdout.strip()
        runs = hist.get(h, [])
        final = {}
        for r in runs:
            if r["check"] != "-" and r["verdict"] in ("DETECTED", "MISSED"):
                final[r["check"]] = r
        used = sorted({r["patch"] for r in runs if r["verdict"] in ("DETECTED", "MISSED")})
        for u in used:
            src = os.path.join(SRC, u + ".diff")
            if os.path.exists(src):
                shutil.copy(src, os.path.join(DST, u + ".diff"))
        det = sorted(k for k, v in final.items() if v["verdict"] == "DETECTED")
        mis = sorted(k for k, v in final.items() if v["verdict"] == "MISSED")
        first_sig = ""
        for k in det:
            m = re.findall(r"'([^']*)'|\"([^\"]*)\"", final[k]["sigs"])
            if m:
                first_sig = (m[0][0] or m[0][1])[:80]
                break
        note = ""
        if any(".rebased" in u for u in used):
            note = "revert rebased onto later fixes"
        earlier_missed = sorted({r["check"] for r in runs if r["verdict"] == "MISSED" and final.get(r["check"], {}).get("verdict") == "DETECTED"})
        if earlier_missed:
            note = (note + "; " if note else "") + "missed at first, detected after strengthening " + ",".join(earlier_missed)
        out.append({"commit": h, "subject": subj, "runs": runs, "detected_by": det, "missed_by": mis, "note": note})
        rows.append(f"| {h} | {subj[5:95]} | {', '.join(det) or '-'} | {first_sig} | {', '.join(mis) or '-'} | {note} |")
    json.dump(out, open(os.path.join(DST, "reverts.json"), "w"), indent=1)
    print("| reverted fix | what it fixed | detected by | first signature | missed by | note |")
    print("|---|---|---|---|---|---|")
    print("\n".join(rows))


if __name__ == "__main__":
    main()
