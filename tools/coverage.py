#!/usr/bin/env python3
"""Workload-gap finder (development aid, not a check): builds the harness with
`-Cinstrument-coverage` (nightly), runs the case stream of the given properties (default: all but
C14) as shards, merges the profiles and lists the regions of /repo/src that NO case executed. A line
that is never executed cannot be watched by any monitor, so this list is where workloads get added.

  coverage.py [--tier quick] [--seed 1] [--props C01,C02,...] [--out /var/tmp/cov]
Output: <out>/report.txt (llvm-cov report), <out>/uncovered.txt (uncovered line ranges per file).
"""
import glob
import os
import re
import shutil
import subprocess
import sys

ROOT = os.path.dirname(os.path.dirname(os.path.abspath(__file__)))
sys.path.insert(0, os.path.join(ROOT, "tools"))
import vlib  # noqa: E402

BIN = os.path.expanduser("~/.rustup/toolchains/nightly-x86_64-unknown-linux-gnu/lib/rustlib/x86_64-unknown-linux-gnu/bin")


def main():
    a = sys.argv[1:]
    def opt(n, d):
        return a[a.index(n) + 1] if n in a else d
    tier = opt("--tier", "quick")
    seed = opt("--seed", "1")
    out = opt("--out", "/var/tmp/cov")
    props = opt("--props", ",".join(f"C{i:02d}" for i in range(1, 20) if i != 14)).split(",")
    p = vlib.Paths(ROOT)
    vlib.ensure_lock(p)
    shutil.rmtree(out, ignore_errors=True)
    os.makedirs(out + "/raw", exist_ok=True)
    env = vlib.base_env()
    env["RUSTFLAGS"] = vlib.GUARD + " -Cinstrument-coverage"
    env["CARGO_TARGET_DIR"] = os.path.join(p.build, "cov")
    r = subprocess.run(["cargo", "+nightly", "build", "--release", "--offline", "--bin", "lzv"], cwd=p.harness, env=env)
    if r.returncode != 0:
        return 2
    binary = os.path.join(p.build, "cov", "release", "lzv")
    nsh = 16
    for prop in props:
        procs = []
        for i in range(nsh):
            e = vlib.base_env()
            e["LLVM_PROFILE_FILE"] = f"{out}/raw/{prop}-{i}-%p.profraw"
            cmd = [binary, "run", prop, "--tier", tier, "--seed", seed, "--shard", f"{i}/{nsh}", "--variant", "rel",
                   "--out", f"{out}/raw/{prop}-{i}.jsonl"]
            if tier == "thorough":
                cmd += ["--budget-s", opt("--budget", "120")]
            procs.append(subprocess.Popen(cmd, cwd=ROOT, env=e, stdout=subprocess.DEVNULL, stderr=subprocess.DEVNULL))
        for pr in procs:
            try:
                pr.wait(timeout=3600)
            except subprocess.TimeoutExpired:
                pr.kill()
        print(prop, "done", flush=True)
    raws = glob.glob(out + "/raw/*.profraw")
    with open(out + "/list.txt", "w") as f:
        f.write("\n".join(raws))
    subprocess.run([BIN + "/llvm-profdata", "merge", "-sparse", "-f", out + "/list.txt", "-o", out + "/all.profdata"], check=True)
    srcs = sorted(glob.glob(vlib.REPO + "/src/**/*.rs", recursive=True))
    rep = subprocess.run([BIN + "/llvm-cov", "report", binary, "-instr-profile", out + "/all.profdata"] + srcs,
                         stdout=subprocess.PIPE, text=True).stdout
    open(out + "/report.txt", "w").write(rep)
    show = subprocess.run([BIN + "/llvm-cov", "show", binary, "-instr-profile", out + "/all.profdata", "-show-line-counts-or-regions",
                           "-show-instantiations=false"] + srcs, stdout=subprocess.PIPE, text=True).stdout
    open(out + "/show.txt", "w").write(show)
    # uncovered executable lines: "   123|      0|code"
    cur = None
    unc = {}
    for line in show.splitlines():
        m = re.match(r"^(/\S+\.rs):$", line)
        if m:
            cur = m.group(1)
            continue
        m = re.match(r"^\s*(\d+)\|\s*0\|(.*)$", line)
        if m and cur:
            unc.setdefault(cur, []).append((int(m.group(1)), m.group(2)))
    with open(out + "/uncovered.txt", "w") as f:
        for fn, lines in unc.items():
            f.write(f"== {fn} ({len(lines)} uncovered lines)\n")
            for n, t in lines:
                f.write(f"{n:5d}: {t}\n")
    print(rep[-3000:])
    return 0


if __name__ == "__main__":
    sys.exit(main())
