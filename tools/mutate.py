#!/usr/bin/env python3
"""Mutation probe (development aid, not a check): applies small mechanical mutations to executed lines
of the library inside a scratch MIRROR (tools/mirror.py; never in /repo), rebuilds, runs the quick tier
(release variant only) of the checks that watch that file, and records which mutants the monitors
report. Survivors are candidates for workload gaps (or equivalent mutants) to be looked at by hand.

  mutate.py <mirror dir> <n mutants> [--seed N] [--files regex] [--show /var/tmp/cov/show.txt]
Log: <mirror>/mutants.jsonl
"""
import json
import os
import random
import re
import subprocess
import sys
import time

ROOT = os.path.dirname(os.path.dirname(os.path.abspath(__file__)))

# which checks watch which source files (first match wins)
MAP = [
    (r"xz/writer|xz\.rs", ["C02", "C03", "C18"]),
    (r"xz/reader", ["C12", "C04", "C03"]),
    (r"lzip/writer_mt", ["C08", "C18"]),
    (r"lzip/reader_mt", ["C08", "C12", "C09"]),
    (r"lzma2_reader_mt", ["C08", "C09"]),
    (r"lzma2_writer_mt", ["C08", "C13"]),
    (r"work_queue", ["C10", "C08"]),
    (r"lzip/writer|lzip\.rs", ["C02", "C03"]),
    (r"lzip/reader", ["C12", "C04", "C02"]),
    (r"filter/bcj2", ["C11", "C05"]),
    (r"filter/", ["C11", "C07"]),
    (r"lzma2_writer", ["C01", "C03"]),
    (r"lzma_writer", ["C01", "C18"]),
    (r"lzma2_reader", ["C01", "C06"]),
    (r"lzma_reader", ["C16", "C01", "C17"]),
    (r"range_dec|decoder|lz_decoder|state", ["C03", "C16"]),
    (r"enc/|lz/", ["C01", "C13"]),
    (r"lib\.rs", ["C01", "C03"]),
]

OPS = [
    (r"<=", "<"), (r">=", ">"), (r"(?<![<>=!-])<(?![<=])", "<="), (r"(?<![<>=-])>(?![>=])", ">="),
    (r"==", "!="), (r"!=", "=="), (r"&&", "||"), (r"\|\|", "&&"),
    (r"\+ 1\b", "+ 2"), (r"- 1\b", "- 2"), (r"\+ 1\b", ""), (r"- 1\b", ""),
    (r"\.min\(", ".max("), (r"\.max\(", ".min("),
    (r"\btrue\b", "false"), (r"\bfalse\b", "true"),
    (r">> (\d+)", lambda m: f">> {int(m.group(1)) + 1}"), (r"<< (\d+)", lambda m: f"<< {int(m.group(1)) + 1}"),
    (r"\b0\b", "1"), (r"\b1\b", "0"), (r"\b2\b", "3"), (r"\b4\b", "5"), (r"\b8\b", "7"),
    (r"\+=", "-="), (r"wrapping_add", "wrapping_sub"), (r"wrapping_sub", "wrapping_add"),
    (r"\+ ", "- "), (r" - ", " + "), (r" & ", " | "),
]


def executed_lines(show):
    """{file: [line numbers with a positive execution count]}"""
    cur, out = None, {}
    for line in open(show, errors="replace"):
        m = re.match(r"^(/\S+\.rs):$", line)
        if m:
            cur = m.group(1)
            continue
        m = re.match(r"^\s*(\d+)\|\s*([0-9.]+[kMG]?)\|(.*)$", line)
        if m and cur and m.group(2) not in ("0",):
            out.setdefault(cur, []).append(int(m.group(1)))
    return out


def main():
    a = sys.argv[1:]
    mirror, n = os.path.abspath(a[0]), int(a[1])
    def opt(name, d):
        return a[a.index(name) + 1] if name in a else d
    rnd = random.Random(int(opt("--seed", "1")))
    files_re = re.compile(opt("--files", "."))
    show = opt("--show", "/var/tmp/cov/show.txt")
    repo = os.path.join(mirror, "repo")
    ex = executed_lines(show)
    sites = []
    for f, lines in ex.items():
        rel = f.split("/src/", 1)[1]
        if rel.startswith("verif") or not files_re.search(rel):
            continue
        for ln in lines:
            sites.append((rel, ln))
    log = open(os.path.join(mirror, "mutants.jsonl"), "a")
    env = dict(os.environ)
    env["LZV_ONLY_VARIANTS"] = "rel"
    done = 0
    tries = 0
    while done < n and tries < n * 60:
        tries += 1
        rel, ln = rnd.choice(sites)
        path = os.path.join(repo, "src", rel)
        src = open(path).read().split("\n")
        line = src[ln - 1]
        code = line.split("//")[0]
        if "verif" in line or "debug_assert" in line or "#[" in line or code.strip().startswith(("use ", "pub use", "///", "fn ", "pub fn", "pub(crate) fn", "const ", "pub const")):
            continue
        ops = [(p, r) for p, r in OPS if re.search(p, code)]
        if not ops:
            continue
        pat, rep = rnd.choice(ops)
        ms = list(re.finditer(pat, code))
        m = rnd.choice(ms)
        new = code[:m.start()] + (rep(m) if callable(rep) else rep) + code[m.end():] + line[len(code):]
        if new == line:
            continue
        src[ln - 1] = new
        open(path, "w").write("\n".join(src))
        rec = {"file": rel, "line": ln, "old": line.strip(), "new": new.strip(), "results": {}}
        try:
            b = subprocess.run(["cargo", "build", "--offline", "--release", "--lib"], cwd=repo, stdout=subprocess.PIPE, stderr=subprocess.STDOUT,
                               text=True, env={**os.environ, "CARGO_TARGET_DIR": os.path.join(mirror, "libtarget")})
            if b.returncode != 0:
                rec["status"] = "does-not-compile"
                continue
            checks = next((c for p, c in MAP if re.search(p, rel)), ["C01"])
            status = "survived"
            for c in checks:
                t0 = time.time()
                r = subprocess.run([sys.executable, os.path.join(ROOT, "tools", "mirror.py"), "run", mirror, "--", "./vcheck", "check", c, "--tier", "quick"],
                                   stdout=subprocess.PIPE, stderr=subprocess.STDOUT, text=True, env=env)
                sigs = re.findall(r"^  sig: (.*)$", r.stdout, re.M)
                rec["results"][c] = {"exit": r.returncode, "sigs": sigs[:3], "wall_s": round(time.time() - t0)}
                if r.returncode == 1:
                    status = "killed"
                    break
                if r.returncode != 0:
                    status = "inconclusive"
            rec["status"] = status
            done += 1
        finally:
            subprocess.run(["git", "-C", repo, "checkout", "--", "."])
            if "status" in rec and rec["status"] != "does-not-compile":
                log.write(json.dumps(rec) + "\n")
                log.flush()
                print(rec["status"], rel, ln, "|", rec["old"][:70], "=>", rec["new"][:70], "|", {k: (v["exit"], v["sigs"][:1]) for k, v in rec["results"].items()}, flush=True)
    return 0


if __name__ == "__main__":
    sys.exit(main())
