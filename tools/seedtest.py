#!/usr/bin/env python3
"""Runs checks against a seeded change: applies a patch to /repo, runs the given checks' quick tier,
restores /repo. Usage: seedtest.py <patch.diff> <Cxx> [<Cyy> ...] [--tier quick] [--seed N]

Prints one line per check: DETECTED / MISSED / INCONCLUSIVE with the violation signatures, and a
JSON summary as the last line. Never leaves the patch applied.
"""
import json
import os
import re
import subprocess
import sys
import time

ROOT = os.path.dirname(os.path.dirname(os.path.abspath(__file__)))
REPO = "/repo"


def sh(cmd, **kw):
    return subprocess.run(cmd, stdout=subprocess.PIPE, stderr=subprocess.STDOUT, text=True, **kw)


def main():
    args = sys.argv[1:]
    tier = "quick"
    seed = None
    if "--tier" in args:
        i = args.index("--tier")
        tier = args[i + 1]
        del args[i:i + 2]
    if "--seed" in args:
        i = args.index("--seed")
        seed = args[i + 1]
        del args[i:i + 2]
    sid = None
    if "--id" in args:
        i = args.index("--id")
        sid = args[i + 1]
        del args[i:i + 2]
    patch = os.path.abspath(args[0])
    if sid is None and os.path.basename(patch) == "patch.diff":
        sid = os.path.basename(os.path.dirname(patch))
    props = args[1:]
    st = sh(["git", "-C", REPO, "status", "--porcelain", "--untracked-files=no"])
    if st.stdout.strip():
        print("REFUSING: /repo has uncommitted changes:\n" + st.stdout)
        return 2
    r = sh(["git", "-C", REPO, "apply", "--whitespace=nowarn", patch])
    if r.returncode != 0:
        print("PATCH DOES NOT APPLY:\n" + r.stdout[-2000:])
        return 2
    results = {}
    try:
        # the patched tree must still build
        b = sh(["cargo", "build", "--offline"], cwd=REPO)
        if b.returncode != 0:
            print("PATCHED TREE DOES NOT BUILD:\n" + b.stdout[-2000:])
            return 2
        for prop in props:
            env = dict(os.environ)
            if seed is not None:
                env["VERIF_SEED"] = seed
            t0 = time.time()
            # the evidence files describe the unchanged tree: keep them, put them back afterwards
            ev_paths = [os.path.join(ROOT, "evidence", f"{prop}.json"), os.path.join(ROOT, "evidence", f"{prop}.{tier}.json")]
            saved = {q: open(q, "rb").read() for q in ev_paths if os.path.exists(q)}
            try:
                r = sh([os.path.join(ROOT, "vcheck"), "check", prop, "--tier", tier], cwd=ROOT, env=env)
            finally:
                for q, b in saved.items():
                    with open(q, "wb") as f:
                        f.write(b)
            sigs = re.findall(r"^  sig: (.*)$", r.stdout, re.M)
            verdict = {0: "MISSED", 1: "DETECTED", 2: "INCONCLUSIVE"}.get(r.returncode, f"EXIT{r.returncode}")
            incon = re.findall(r"^INCONCLUSIVE.*$", r.stdout, re.M)
            results[prop] = {"verdict": verdict, "sigs": sigs[:8], "n_sigs": len(sigs), "wall_s": round(time.time() - t0, 1),
                             "inconclusive": incon[:3]}
            print(f"{prop}: {verdict} in {time.time() - t0:.0f}s  {sigs[:4]} {incon[:2]}", flush=True)
            if verdict == "INCONCLUSIVE" and "FAILED" in r.stdout:
                i = r.stdout.index("FAILED")
                errs = [l for l in r.stdout[i:].splitlines() if l.startswith("error") or l.lstrip().startswith("-->")]
                print("  build failure: " + " | ".join(errs[:6]), flush=True)
    finally:
        sh(["git", "-C", REPO, "checkout", "--", "."])
        sh(["git", "-C", REPO, "clean", "-fdq", "tests", "src"])
    summary = {"patch": patch, "tier": tier, "seed": seed, "results": results, "at": time.strftime("%Y-%m-%d %H:%M:%S")}
    print(json.dumps(summary))
    # run history of this seeded change (read by tools/seed_meta.py)
    if sid:
        os.makedirs("/var/tmp/seedwork", exist_ok=True)
        with open(f"/var/tmp/seedwork/runs_{sid}.jsonl", "a") as f:
            f.write(json.dumps(summary) + "\n")
    return 0


if __name__ == "__main__":
    sys.exit(main())
