#!/usr/bin/env python3
"""Confirms a seeded change in a scratch worktree (never in /repo):
   demo passes on the clean tree, patch applies, tree builds (default + no_std features), the
   repository's suite still gives the baseline result, demo fails with the patch.
Usage: confirm_seed.py <worktree> <seed dir with patch.diff + demo.rs>  -> JSON on the last line
"""
import json
import os
import re
import shutil
import subprocess
import sys

ALWAYS_FAIL = {"issue_44_7z", "multi_writer_lzip2", "multi_writer_lzma2"}


def sh(cmd, cwd, timeout=1800):
    r = subprocess.run(cmd, cwd=cwd, stdout=subprocess.PIPE, stderr=subprocess.STDOUT, text=True, timeout=timeout)
    return r.returncode, r.stdout


def main():
    wt, sd = sys.argv[1], sys.argv[2]
    res = {"seed": sd, "worktree": wt}
    demo_dst = os.path.join(wt, "tests", "seeded_demo.rs")
    sh(["git", "checkout", "--", "."], wt)
    for f in os.listdir(os.path.join(wt, "tests")):
        if f.startswith("seeded"):
            os.remove(os.path.join(wt, "tests", f))
    shutil.copy(os.path.join(sd, "demo.rs"), demo_dst)
    try:
        rc, out = sh(["cargo", "test", "--offline", "--test", "seeded_demo"], wt)
        res["demo_on_clean_tree"] = "pass" if rc == 0 else "FAIL"
        res["demo_clean_tail"] = out[-300:] if rc != 0 else ""
        rc, out = sh(["git", "apply", "--whitespace=nowarn", os.path.join(sd, "patch.diff")], wt)
        res["patch_applies"] = rc == 0
        if rc != 0:
            res["apply_err"] = out[-500:]
            print(json.dumps(res))
            return 1
        rc1, _ = sh(["cargo", "build", "--offline"], wt)
        rc2, _ = sh(["cargo", "build", "--offline", "--no-default-features", "--features", "encoder,xz,lzip"], wt)
        res["builds_default"] = rc1 == 0
        res["builds_no_std"] = rc2 == 0
        rc, out = sh(["cargo", "test", "--offline", "--test", "seeded_demo"], wt)
        res["demo_with_patch"] = "fail" if rc != 0 else "PASSES"
        m = re.findall(r"test result: \w+\. (\d+) passed; (\d+) failed", out)
        res["demo_with_patch_counts"] = m[-1] if m else None
        # suite without the demo
        os.remove(demo_dst)
        rc, out = sh(["cargo", "nextest", "run", "--workspace", "--no-fail-fast", "--tool-config-file",
                      "pb:/verif/tools/nextest.toml", "--profile", "pb", "--test-threads", "8", "--offline"], wt, timeout=3600)
        m = re.search(r"(\d+) tests run: (\d+) passed(?:, (\d+) failed)?(?:, (\d+) timed out)?", out)
        failed = set(re.findall(r"(?:FAIL|TIMEOUT)\s+\[[^\]]*\]\s+(?:\(\s*\d+/\d+\)\s+)?\S+\s+(\S+)", out))
        failed = {f.split("::")[-1] for f in failed}
        res["suite"] = m.group(0) if m else out[-300:]
        res["suite_unexpected_failures"] = sorted(failed - ALWAYS_FAIL)
        res["confirmed"] = bool(res["demo_on_clean_tree"] == "pass" and res["demo_with_patch"] == "fail" and rc1 == 0
                                and not res["suite_unexpected_failures"] and m and int(m.group(2)) >= 209)
    finally:
        sh(["git", "checkout", "--", "."], wt)
        if os.path.exists(demo_dst):
            os.remove(demo_dst)
    print(json.dumps(res))
    return 0


if __name__ == "__main__":
    sys.exit(main())
