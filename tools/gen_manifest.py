#!/usr/bin/env python3
"""Writes /verif/MANIFEST.json from tools/props_cfg.py (single source of truth)."""
import json
import os
import subprocess
import sys

ROOT = os.path.dirname(os.path.dirname(os.path.abspath(__file__)))
sys.path.insert(0, os.path.join(ROOT, "tools"))
import props_cfg  # noqa: E402

ALL = [f"C{i:02d}" for i in range(1, 20)]


def hook_commits():
    try:
        out = subprocess.run(["git", "-C", "/repo", "log", "--format=%H %s"], stdout=subprocess.PIPE, text=True).stdout
        return [l.split()[0] for l in out.splitlines() if "verif hooks" in l]
    except Exception:
        return []


def main():
    checks = []
    na = []
    for pid in ALL:
        cfg = props_cfg.PROPS.get(pid)
        if not cfg or cfg.get("disabled"):
            na.append({"property_id": pid, "reason": (cfg or {}).get("disabled", "check not built yet (work in progress)")})
            continue
        m = cfg.get("manifest", {})
        checks.append({
            "property_id": pid,
            "quick_cmd": f"./vcheck check {pid} --tier quick",
            "thorough_cmd": f"./vcheck check {pid} --tier thorough",
            "evidence_file": f"/verif/evidence/{pid}.json",
            "replay_cmd_template": "./vcheck replay {path}",
            "engine": m.get("engine", "lzv"),
            "level_claimed": {
                "category": cfg["level"],
                "text": m.get("text", ""),
                "design_ref": m.get("design_ref", f"DESIGN.md section 5, {pid}"),
            },
            "level_note": (m.get("note", "") + " Thorough tier: the same case stream, much longer; every build variant stops "
                           "starting new cases after a wall budget (VERIF_BUDGET_S seconds; default 420, and 600 for "
                           "miri/asan/valgrind variants) - cases are pure functions of (seed, index), so the explored "
                           "prefix is reported exactly (evaluations, cases_not_started_wall_budget in the evidence).").strip(),
            "technique": m.get("technique", "runtime monitoring: seeded workload + oracle over observed executions"),
        })
    man = {
        "version": 1,
        "setup_cmd": "./vcheck setup",
        "hooks": {
            "guard": "lzma_rust2_verif",
            "enable": "RUSTFLAGS=\"--cfg lzma_rust2_verif\" (set by ./vcheck for every build of the harness, which path-depends on /repo)",
            "baseline_off_cmd": "cd /repo && cargo nextest run --workspace --no-fail-fast --tool-config-file pb:/verif/tools/nextest.toml --profile pb --test-threads 8 --offline",
            "source_commits": hook_commits(),
            "add_only": True,
        },
        "engines": props_cfg.ENGINES,
        "checks": checks,
        "not_applicable": na,
        "notes": props_cfg.NOTES,
    }
    with open(os.path.join(ROOT, "MANIFEST.json"), "w") as f:
        json.dump(man, f, indent=1)
    print(f"MANIFEST.json: {len(checks)} checks, {len(na)} not_applicable")


if __name__ == "__main__":
    main()
