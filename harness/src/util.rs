//! PRNG, hashing, hex, tiny JSON writer. No external crates.

use std::fmt::Write as _;

#[inline]
pub fn splitmix(x: &mut u64) -> u64 {
    *x = x.wrapping_add(0x9E37_79B9_7F4A_7C15);
    let mut z = *x;
    z = (z ^ (z >> 30)).wrapping_mul(0xBF58_476D_1CE4_E5B9);
    z = (z ^ (z >> 27)).wrapping_mul(0x94D0_49BB_1331_11EB);
    z ^ (z >> 31)
}

pub fn mix(a: u64, b: u64) -> u64 {
    let mut x = a ^ b.rotate_left(32) ^ 0xA076_1D64_78BD_642F;
    let r = splitmix(&mut x);
    let mut y = r ^ b;
    splitmix(&mut y)
}

pub fn hash_str(s: &str) -> u64 {
    hash64(s.as_bytes())
}

pub fn hash64(b: &[u8]) -> u64 {
    let mut h: u64 = 0xcbf2_9ce4_8422_2325;
    for &x in b {
        h ^= x as u64;
        h = h.wrapping_mul(0x0000_0100_0000_01B3);
    }
    let mut s = h ^ (b.len() as u64);
    splitmix(&mut s)
}

/// xoshiro256**
#[derive(Clone, Debug)]
pub struct Rng {
    s: [u64; 4],
}

impl Rng {
    pub fn new(seed: u64) -> Self {
        let mut x = seed;
        let s = [
            splitmix(&mut x),
            splitmix(&mut x),
            splitmix(&mut x),
            splitmix(&mut x),
        ];
        Rng { s }
    }

    #[inline]
    pub fn next_u64(&mut self) -> u64 {
        let result = self.s[1].wrapping_mul(5).rotate_left(7).wrapping_mul(9);
        let t = self.s[1] << 17;
        self.s[2] ^= self.s[0];
        self.s[3] ^= self.s[1];
        self.s[1] ^= self.s[2];
        self.s[0] ^= self.s[3];
        self.s[2] ^= t;
        self.s[3] = self.s[3].rotate_left(45);
        result
    }

    #[inline]
    pub fn next_u32(&mut self) -> u32 {
        (self.next_u64() >> 32) as u32
    }

    /// Uniform in [0, n). n == 0 returns 0.
    #[inline]
    pub fn below(&mut self, n: u64) -> u64 {
        if n == 0 {
            return 0;
        }
        ((self.next_u64() as u128 * n as u128) >> 64) as u64
    }

    #[inline]
    pub fn usize_below(&mut self, n: usize) -> usize {
        self.below(n as u64) as usize
    }

    /// Uniform in [lo, hi] inclusive.
    #[inline]
    pub fn range(&mut self, lo: u64, hi: u64) -> u64 {
        if hi <= lo {
            return lo;
        }
        lo + self.below(hi - lo + 1)
    }

    #[inline]
    pub fn chance(&mut self, num: u64, den: u64) -> bool {
        self.below(den) < num
    }

    pub fn pick<'a, T>(&mut self, xs: &'a [T]) -> &'a T {
        &xs[self.usize_below(xs.len())]
    }

    pub fn fill(&mut self, buf: &mut [u8]) {
        let mut chunks = buf.chunks_exact_mut(8);
        for c in &mut chunks {
            c.copy_from_slice(&self.next_u64().to_le_bytes());
        }
        let rem = chunks.into_remainder();
        if !rem.is_empty() {
            let b = self.next_u64().to_le_bytes();
            let n = rem.len();
            rem.copy_from_slice(&b[..n]);
        }
    }

    pub fn bytes(&mut self, n: usize) -> Vec<u8> {
        let mut v = vec![0u8; n];
        self.fill(&mut v);
        v
    }

    /// Log-uniform integer in [lo, hi].
    pub fn log_range(&mut self, lo: u64, hi: u64) -> u64 {
        if hi <= lo {
            return lo;
        }
        let llo = (lo.max(1) as f64).ln();
        let lhi = (hi as f64).ln();
        let u = (self.next_u64() >> 11) as f64 / (1u64 << 53) as f64;
        let v = (llo + (lhi - llo) * u).exp() as u64;
        v.clamp(lo, hi)
    }
}

pub fn hex(b: &[u8]) -> String {
    let mut s = String::with_capacity(b.len() * 2);
    for x in b {
        let _ = write!(s, "{x:02x}");
    }
    s
}

pub fn unhex(s: &str) -> Vec<u8> {
    let b = s.as_bytes();
    let mut out = Vec::with_capacity(b.len() / 2);
    let v = |c: u8| -> u8 {
        match c {
            b'0'..=b'9' => c - b'0',
            b'a'..=b'f' => c - b'a' + 10,
            b'A'..=b'F' => c - b'A' + 10,
            _ => 0,
        }
    };
    let mut i = 0;
    while i + 1 < b.len() {
        out.push((v(b[i]) << 4) | v(b[i + 1]));
        i += 2;
    }
    out
}

pub fn jstr(s: &str) -> String {
    let mut o = String::with_capacity(s.len() + 2);
    o.push('"');
    for c in s.chars() {
        match c {
            '"' => o.push_str("\\\""),
            '\\' => o.push_str("\\\\"),
            '\n' => o.push_str("\\n"),
            '\r' => o.push_str("\\r"),
            '\t' => o.push_str("\\t"),
            c if (c as u32) < 0x20 => {
                let _ = write!(o, "\\u{:04x}", c as u32);
            }
            c => o.push(c),
        }
    }
    o.push('"');
    o
}

/// Minimal JSON object builder.
#[derive(Default, Clone)]
pub struct Obj {
    s: String,
}

impl Obj {
    pub fn new() -> Self {
        Obj { s: String::new() }
    }
    fn key(&mut self, k: &str) {
        if !self.s.is_empty() {
            self.s.push(',');
        }
        self.s.push_str(&jstr(k));
        self.s.push(':');
    }
    pub fn s(mut self, k: &str, v: &str) -> Self {
        self.key(k);
        self.s.push_str(&jstr(v));
        self
    }
    pub fn n(mut self, k: &str, v: u64) -> Self {
        self.key(k);
        let _ = write!(self.s, "{v}");
        self
    }
    pub fn i(mut self, k: &str, v: i64) -> Self {
        self.key(k);
        let _ = write!(self.s, "{v}");
        self
    }
    pub fn f(mut self, k: &str, v: f64) -> Self {
        self.key(k);
        let _ = write!(self.s, "{v:.3}");
        self
    }
    pub fn b(mut self, k: &str, v: bool) -> Self {
        self.key(k);
        self.s.push_str(if v { "true" } else { "false" });
        self
    }
    /// Raw JSON value.
    pub fn raw(mut self, k: &str, v: &str) -> Self {
        self.key(k);
        self.s.push_str(v);
        self
    }
    pub fn build(self) -> String {
        format!("{{{}}}", self.s)
    }
}

pub fn jarr_str(xs: &[String]) -> String {
    let v: Vec<String> = xs.iter().map(|x| jstr(x)).collect();
    format!("[{}]", v.join(","))
}

/// Extracts a string or number field from a flat JSON object produced by `Obj` (used by replay).
pub fn jget(json: &str, key: &str) -> Option<String> {
    let pat = format!("\"{key}\":");
    let i = json.find(&pat)? + pat.len();
    let rest = json[i..].trim_start();
    if let Some(r) = rest.strip_prefix('"') {
        let mut out = String::new();
        let mut chars = r.chars();
        while let Some(c) = chars.next() {
            match c {
                '\\' => match chars.next()? {
                    'n' => out.push('\n'),
                    't' => out.push('\t'),
                    'r' => out.push('\r'),
                    'u' => {
                        let h: String = chars.by_ref().take(4).collect();
                        out.push(char::from_u32(u32::from_str_radix(&h, 16).ok()?)?);
                    }
                    c => out.push(c),
                },
                '"' => return Some(out),
                c => out.push(c),
            }
        }
        None
    } else {
        let end = rest
            .find(|c: char| c == ',' || c == '}' || c == ']' || c.is_whitespace())
            .unwrap_or(rest.len());
        Some(rest[..end].to_string())
    }
}

pub fn short(b: &[u8]) -> String {
    if b.len() <= 48 {
        hex(b)
    } else {
        format!(
            "{}..{} (len {}, h={:016x})",
            hex(&b[..24]),
            hex(&b[b.len() - 8..]),
            b.len(),
            hash64(b)
        )
    }
}

pub fn first_diff(a: &[u8], b: &[u8]) -> String {
    let n = a.len().min(b.len());
    for i in 0..n {
        if a[i] != b[i] {
            return format!(
                "first difference at {} ({:02x} vs {:02x}), lengths {} vs {}",
                i,
                a[i],
                b[i],
                a.len(),
                b.len()
            );
        }
    }
    format!("common prefix {}, lengths {} vs {}", n, a.len(), b.len())
}
