//! Seeded generators: data families, option vectors, call histories.

use std::sync::OnceLock;

use lzma_rust2::{EncodeMode, LZMAOptions, MFType};

use crate::util::Rng;

pub fn repo_dir() -> String {
    std::env::var("LZV_REPO").unwrap_or_else(|_| "/repo".to_string())
}

pub struct Corpus {
    pub text: Vec<u8>,
    pub exes: Vec<(&'static str, Vec<u8>)>,
    pub xzs: Vec<(&'static str, Vec<u8>)>,
}

pub const ARCHS: [&str; 8] = [
    "x86",
    "arm",
    "arm-thumb",
    "arm64",
    "ppc",
    "sparc",
    "ia64",
    "riscv",
];

static CORPUS: OnceLock<Corpus> = OnceLock::new();

pub fn corpus() -> &'static Corpus {
    CORPUS.get_or_init(|| {
        let dir = repo_dir();
        let mut text = std::fs::read(format!("{dir}/tests/data/apache2.txt")).unwrap_or_default();
        for f in [
            "src/lib.rs",
            "src/xz/reader.rs",
            "src/enc/encoder_normal.rs",
            "README.md",
        ] {
            if let Ok(b) = std::fs::read(format!("{dir}/{f}")) {
                text.extend_from_slice(&b);
            }
        }
        if text.is_empty() {
            // Miri / missing repo: synthesise some text.
            let mut r = Rng::new(7);
            let words = [
                "the", "quick", "brown", "fox", "jumps", "over", "lazy", "dog", "lzma", "range",
                "coder", "match", "finder", "\n", ", ", ". ",
            ];
            while text.len() < 20000 {
                text.extend_from_slice(r.pick(&words).as_bytes());
                text.push(b' ');
            }
        }
        let mut exes = Vec::new();
        let mut xzs = Vec::new();
        for a in ARCHS {
            if let Ok(b) = std::fs::read(format!("{dir}/tests/data/wget-{a}")) {
                exes.push((a, b));
            }
            if let Ok(b) = std::fs::read(format!("{dir}/tests/data/wget-{a}.xz")) {
                xzs.push((a, b));
            }
        }
        Corpus { text, exes, xzs }
    })
}

#[derive(Clone, Copy, Debug, PartialEq, Eq)]
pub enum Family {
    Empty,
    OneByte,
    Constant,
    Periodic,
    Random,
    Text,
    Exe,
    EditRepeat,
    FarCopy,
    Mixed,
    LowEntropy,
    /// random / text / random / text quarters (LZMA2: uncompressed chunk first, then LZMA chunks)
    Sandwich,
    /// a short zero prefix, then incompressible runs of about one stored LZMA2 chunk (64.3-64.7 KB)
    /// each followed by a region dense with short matches (a copy of earlier bytes with every k-th
    /// byte altered): stored chunks whose size, together with the optimum parser's read-ahead,
    /// ends up just above 64 KiB, next to window moves
    StoredRuns,
}

pub const FAMILIES: [Family; 12] = [
    Family::Empty,
    Family::OneByte,
    Family::Constant,
    Family::Periodic,
    Family::Random,
    Family::Text,
    Family::Exe,
    Family::EditRepeat,
    Family::FarCopy,
    Family::Mixed,
    Family::LowEntropy,
    Family::Sandwich,
];

impl Family {
    pub fn name(self) -> &'static str {
        match self {
            Family::Empty => "empty",
            Family::OneByte => "one",
            Family::Constant => "const",
            Family::Periodic => "periodic",
            Family::Random => "random",
            Family::Text => "text",
            Family::Exe => "exe",
            Family::EditRepeat => "editrep",
            Family::FarCopy => "farcopy",
            Family::Mixed => "mixed",
            Family::LowEntropy => "lowent",
            Family::Sandwich => "sandwich",
            Family::StoredRuns => "stored-runs",
        }
    }
}

/// Non-degenerate families for general use.
pub const BULK_FAMILIES: [Family; 9] = [
    Family::Constant,
    Family::Periodic,
    Family::Random,
    Family::Text,
    Family::Exe,
    Family::EditRepeat,
    Family::FarCopy,
    Family::Mixed,
    Family::LowEntropy,
];

fn slice_of(r: &mut Rng, src: &[u8], len: usize, out: &mut Vec<u8>) {
    if src.is_empty() {
        out.extend(std::iter::repeat(0x41).take(len));
        return;
    }
    while out.len() < len {
        let want = len - out.len();
        let start = r.usize_below(src.len());
        let n = want.min(src.len() - start).min(1 + r.usize_below(64 * 1024));
        out.extend_from_slice(&src[start..start + n]);
    }
    out.truncate(len);
}

pub fn gen_data(r: &mut Rng, fam: Family, len: usize) -> Vec<u8> {
    let mut out = Vec::with_capacity(len);
    match fam {
        Family::Empty => {}
        Family::OneByte => out.push(r.next_u32() as u8),
        Family::Constant => {
            let b = r.next_u32() as u8;
            out.resize(len, b);
        }
        Family::Periodic => {
            let p = match r.below(4) {
                0 => 1 + r.usize_below(8),
                1 => 1 + r.usize_below(300),
                2 => 270 + r.usize_below(10),
                _ => 1 + r.usize_below(5000),
            };
            let pat = r.bytes(p);
            while out.len() < len {
                let n = (len - out.len()).min(p);
                out.extend_from_slice(&pat[..n]);
            }
        }
        Family::Random => out = r.bytes(len),
        Family::Text => {
            let c = corpus();
            slice_of(r, &c.text, len, &mut out);
        }
        Family::Exe => {
            let c = corpus();
            if c.exes.is_empty() {
                out = r.bytes(len);
            } else {
                let i = r.usize_below(c.exes.len());
                slice_of(r, &c.exes[i].1, len, &mut out);
            }
        }
        Family::EditRepeat => {
            // copy earlier spans at a few recurring distances with sparse edits -> rep0..rep3, short rep
            let seed_len = len.min(64 + r.usize_below(512));
            let c = corpus();
            slice_of(r, &c.text, seed_len, &mut out);
            let dists: Vec<usize> = (0..4).map(|_| 1 + r.usize_below(seed_len.max(2))).collect();
            while out.len() < len {
                let d = *r.pick(&dists);
                let d = d.min(out.len()).max(1);
                let n = (2 + r.usize_below(40)).min(len - out.len());
                for _ in 0..n {
                    let b = out[out.len() - d];
                    out.push(b);
                }
                if out.len() < len && r.chance(2, 3) {
                    // single literal edit, then typically the same distance again (rep0)
                    out.push(r.next_u32() as u8);
                }
            }
        }
        Family::FarCopy => {
            // random blocks, later copied from far away (all dist slot classes)
            let block = 16 + r.usize_below(200);
            while out.len() < len {
                if out.len() > block && r.chance(1, 2) {
                    let maxd = out.len();
                    let d = match r.below(5) {
                        0 => 1 + r.usize_below(4),
                        1 => 4 + r.usize_below(124),
                        2 => 128 + r.usize_below(4000),
                        3 => r.log_range(128, maxd as u64) as usize,
                        _ => maxd - r.usize_below(maxd.min(64)),
                    }
                    .clamp(1, maxd);
                    let n = (4 + r.usize_below(block)).min(len - out.len());
                    for _ in 0..n {
                        let b = out[out.len() - d];
                        out.push(b);
                    }
                } else {
                    let n = (1 + r.usize_below(block)).min(len - out.len());
                    let b = r.bytes(n);
                    out.extend_from_slice(&b);
                }
            }
        }
        Family::Mixed => {
            while out.len() < len {
                let seg = match r.below(6) {
                    0 => 65536 - 2 + r.usize_below(5),
                    1 => (2 << 20) - 273 - 2 + r.usize_below(5),
                    2 => 1 + r.usize_below(300),
                    3 => r.log_range(1, 200_000) as usize,
                    _ => r.log_range(1000, 100_000) as usize,
                }
                .min(len - out.len());
                let sub = *r.pick(&[
                    Family::Random,
                    Family::Random,
                    Family::Text,
                    Family::Constant,
                    Family::Exe,
                    Family::EditRepeat,
                ]);
                let d = gen_data(r, sub, seg);
                out.extend_from_slice(&d);
            }
        }
        Family::Sandwich => {
            let q = len / 4;
            for i in 0..4 {
                let n = if i == 3 { len - out.len() } else { q };
                let f = if i % 2 == 0 { Family::Random } else { Family::Text };
                let d = gen_data(r, f, n);
                out.extend_from_slice(&d);
            }
        }
        Family::StoredRuns => {
            let z = r.usize_below(9000).min(len);
            out.extend(std::iter::repeat(0u8).take(z));
            while out.len() < len {
                let run = 64_300 + r.usize_below(400);
                let rb = r.bytes(run);
                out.extend_from_slice(&rb);
                let n = 1500 + r.usize_below(2500);
                let back = 3000 + r.usize_below(2000);
                let step = 6 + r.usize_below(34);
                if out.len() > back + n {
                    let a = out.len() - back;
                    let mut region = out[a..a + n.min(back)].to_vec();
                    let mut k = 0;
                    while k < region.len() {
                        region[k] ^= 0x55;
                        k += step;
                    }
                    out.extend_from_slice(&region);
                }
            }
        }
        Family::LowEntropy => {
            let k = 2 + r.usize_below(6);
            let alphabet = r.bytes(k);
            for _ in 0..len {
                out.push(alphabet[r.usize_below(k)]);
            }
        }
    }
    out.truncate(len.max(if fam == Family::OneByte { 1 } else { 0 }));
    out
}

/// A length drawn from boundary values and a log-uniform tail.
pub fn gen_len(r: &mut Rng, max: usize, dict: u32) -> usize {
    let d = dict as usize;
    let specials = [
        0usize,
        1,
        2,
        3,
        4,
        5,
        7,
        8,
        15,
        16,
        17,
        273,
        274,
        4095,
        4096,
        4097,
        d.saturating_sub(1),
        d,
        d + 1,
        65535,
        65536,
        65537,
        (2 << 20) - 273 - 1,
        (2 << 20) - 273,
        (2 << 20) - 273 + 1,
        (2 << 20) + 5,
    ];
    let l = if r.chance(1, 4) {
        *r.pick(&specials)
    } else {
        r.log_range(1, max as u64) as usize
    };
    l.min(max)
}

pub const DICTS_SMALL: [u32; 10] = [
    4096, 4097, 5000, 6144, 8192, 12288, 65535, 65536, 65537, 100_000,
];

pub const DICTS_MED: [u32; 6] = [1 << 18, 1 << 20, 3 << 19, (1 << 20) + 1, 1 << 21, 1 << 22];

pub fn gen_dict(r: &mut Rng, allow_big: bool) -> u32 {
    match r.below(10) {
        0..=5 => *r.pick(&DICTS_SMALL),
        6..=8 => *r.pick(&DICTS_MED),
        _ => {
            if allow_big {
                *r.pick(&[1u32 << 23, 3 << 22, 1 << 24])
            } else {
                r.range(4096, 1 << 20) as u32
            }
        }
    }
}

pub fn mode_name(m: EncodeMode) -> &'static str {
    match m {
        EncodeMode::Fast => "fast",
        EncodeMode::Normal => "normal",
    }
}

pub fn mf_name(m: MFType) -> &'static str {
    match m {
        MFType::HC4 => "hc4",
        MFType::BT4 => "bt4",
    }
}

/// In-range LZMA options. `lzma2` restricts lc + lp <= 4.
pub fn gen_lzma_opts(r: &mut Rng, lzma2: bool, allow_big_dict: bool) -> LZMAOptions {
    let (lc, lp) = loop {
        let lc = if r.chance(1, 3) { 3 } else { r.below(9) as u32 };
        let lp = if r.chance(1, 2) { 0 } else { r.below(5) as u32 };
        if !lzma2 || lc + lp <= 4 {
            break (lc, lp);
        }
    };
    let pb = if r.chance(1, 3) { 2 } else { r.below(5) as u32 };
    let dict = gen_dict(r, allow_big_dict);
    let mode = if r.chance(1, 2) {
        EncodeMode::Fast
    } else {
        EncodeMode::Normal
    };
    let mf = if r.chance(1, 2) {
        MFType::HC4
    } else {
        MFType::BT4
    };
    let nice = match r.below(6) {
        0 => 8,
        1 => 273,
        2 => 9 + r.below(8) as u32,
        3 => 32,
        4 => 64,
        _ => r.range(8, 273) as u32,
    };
    let depth = *r.pick(&[0i32, 0, -1, -100, 1, 2, 4, 48, 1000, i32::MIN]);
    LZMAOptions::new(dict, lc, lp, pb, mode, nice, mf, depth)
}

pub fn opts_desc(o: &LZMAOptions) -> String {
    format!(
        "dict={} lc={} lp={} pb={} mode={} nice={} mf={} depth={} preset_dict={}",
        o.dict_size,
        o.lc,
        o.lp,
        o.pb,
        mode_name(o.mode),
        o.nice_len,
        mf_name(o.mf),
        o.depth_limit,
        o.preset_dict.as_ref().map(|d| d.len() as i64).unwrap_or(-1)
    )
}

pub fn dict_class(d: u32) -> &'static str {
    if d < 65536 {
        "lt64k"
    } else if d <= (1 << 20) {
        "le1m"
    } else {
        "gt1m"
    }
}

pub fn len_class(n: usize) -> &'static str {
    match n {
        0 => "0",
        1..=16 => "tiny",
        17..=4096 => "small",
        4097..=65536 => "le64k",
        65537..=2096879 => "le2m",
        _ => "gt2m",
    }
}

/// A partition of `len` into write sizes (may include zeros = empty writes).
pub fn gen_partition(r: &mut Rng, len: usize) -> Vec<usize> {
    let mut out = Vec::new();
    let style = r.below(8);
    let mut left = len;
    let fixed = *r.pick(&[1usize, 2, 3, 5, 7, 13, 4095, 4096, 4097, 65536, 100_000]);
    let mut guard = 0;
    while left > 0 {
        guard += 1;
        let n = match style {
            0 => left,
            1 => fixed,
            2 => 1 + r.usize_below(16),
            3 => r.log_range(1, left.max(1) as u64) as usize,
            4 => {
                if r.chance(1, 4) {
                    0
                } else {
                    r.log_range(1, 70_000) as usize
                }
            }
            5 => *r.pick(&[1usize, 4096, 65536, 1 << 20]),
            6 => {
                if guard == 1 {
                    left / 2
                } else {
                    left
                }
            }
            _ => 1 + r.usize_below(5000),
        }
        .min(left);
        // keep call counts bounded
        let n = if out.len() > 20_000 { left } else { n };
        out.push(n);
        left -= n;
    }
    if r.chance(1, 4) {
        out.push(0);
    }
    out
}

/// A sequence of read buffer sizes; cycled by the reader loop.
pub fn gen_read_sizes(r: &mut Rng) -> Vec<usize> {
    match r.below(8) {
        0 => vec![1],
        1 => vec![*r.pick(&[2usize, 3, 5, 7, 13])],
        2 => vec![4095, 4096, 4097],
        3 => vec![65536],
        4 => vec![1 << 20],
        5 => (0..8).map(|_| 1 + r.usize_below(300)).collect(),
        6 => (0..6).map(|_| r.log_range(1, 200_000) as usize).collect(),
        _ => vec![1, 0, 7, 0, 4096, 1, 65536],
    }
}
