//! Allocation monitor: a global allocator wrapper that keeps current / peak byte counts, remembers
//! no addresses, and can poison fresh (non-zeroed) blocks with a seeded pattern.

use std::alloc::{GlobalAlloc, Layout, System};
use std::sync::atomic::{AtomicBool, AtomicU64, AtomicU8, Ordering};

pub struct Monitor;

static CURRENT: AtomicU64 = AtomicU64::new(0);
static PEAK: AtomicU64 = AtomicU64::new(0);
static TOTAL_ALLOCS: AtomicU64 = AtomicU64::new(0);
static LARGEST: AtomicU64 = AtomicU64::new(0);
static POISON_ON: AtomicBool = AtomicBool::new(false);
static POISON_BYTE: AtomicU8 = AtomicU8::new(0xA5);

#[inline]
fn on_alloc(size: usize) {
    let cur = CURRENT.fetch_add(size as u64, Ordering::Relaxed) + size as u64;
    PEAK.fetch_max(cur, Ordering::Relaxed);
    LARGEST.fetch_max(size as u64, Ordering::Relaxed);
    TOTAL_ALLOCS.fetch_add(1, Ordering::Relaxed);
}

unsafe impl GlobalAlloc for Monitor {
    unsafe fn alloc(&self, layout: Layout) -> *mut u8 {
        let p = System.alloc(layout);
        if !p.is_null() {
            on_alloc(layout.size());
            if POISON_ON.load(Ordering::Relaxed) && layout.size() <= (64 << 20) {
                std::ptr::write_bytes(p, POISON_BYTE.load(Ordering::Relaxed), layout.size());
            }
        }
        p
    }
    unsafe fn alloc_zeroed(&self, layout: Layout) -> *mut u8 {
        let p = System.alloc_zeroed(layout);
        if !p.is_null() {
            on_alloc(layout.size());
        }
        p
    }
    unsafe fn dealloc(&self, ptr: *mut u8, layout: Layout) {
        CURRENT.fetch_sub(layout.size() as u64, Ordering::Relaxed);
        System.dealloc(ptr, layout)
    }
    unsafe fn realloc(&self, ptr: *mut u8, layout: Layout, new_size: usize) -> *mut u8 {
        let p = System.realloc(ptr, layout, new_size);
        if !p.is_null() {
            if new_size >= layout.size() {
                let d = new_size - layout.size();
                on_alloc(d);
                if POISON_ON.load(Ordering::Relaxed) && d <= (64 << 20) {
                    std::ptr::write_bytes(p.add(layout.size()), POISON_BYTE.load(Ordering::Relaxed), d);
                }
            } else {
                CURRENT.fetch_sub((layout.size() - new_size) as u64, Ordering::Relaxed);
            }
        }
        p
    }
}

/// Starts a measurement window: returns the baseline (bytes currently allocated).
pub fn window_begin() -> u64 {
    let cur = CURRENT.load(Ordering::Relaxed);
    PEAK.store(cur, Ordering::Relaxed);
    LARGEST.store(0, Ordering::Relaxed);
    cur
}

/// Peak bytes allocated above the baseline since `window_begin`, and the largest single block.
pub fn window_peak(baseline: u64) -> (u64, u64) {
    (PEAK.load(Ordering::Relaxed).saturating_sub(baseline), LARGEST.load(Ordering::Relaxed))
}

pub fn current() -> u64 {
    CURRENT.load(Ordering::Relaxed)
}

pub fn set_poison(on: bool, byte: u8) {
    POISON_BYTE.store(byte, Ordering::Relaxed);
    POISON_ON.store(on, Ordering::Relaxed);
}
