//! Case framework: outcomes, panic capture, shard driver.

use std::collections::BTreeMap;
use std::io::Write;
use std::panic::{catch_unwind, AssertUnwindSafe};
use std::sync::Mutex;

use crate::util::{jstr, mix, hash_str, Obj, Rng};

#[derive(Clone, Copy, Debug, PartialEq, Eq)]
pub enum Tier {
    Quick,
    Thorough,
}

#[derive(Clone, Debug)]
pub struct Ctx {
    pub prop: String,
    pub seed: u64,
    pub tier: Tier,
    /// build variant: rel, dbg, asan, tsan, miri, vg
    pub variant: String,
    /// multiplies random-case counts (fraction in percent)
    pub scale_pct: u64,
}

impl Ctx {
    pub fn rng(&self, idx: u64) -> Rng {
        Rng::new(mix(mix(self.seed, hash_str(&self.prop)), idx))
    }
    pub fn thorough(&self) -> bool {
        self.tier == Tier::Thorough
    }
    pub fn scaled(&self, n: u64) -> u64 {
        (n * self.scale_pct / 100).max(1)
    }
    pub fn is(&self, v: &str) -> bool {
        self.variant == v
    }
    /// Slow interpreters / instrumented builds.
    pub fn slow(&self) -> bool {
        matches!(self.variant.as_str(), "miri" | "vg")
    }
}

#[derive(Clone, Debug)]
pub enum Outcome {
    Held,
    Violation { sig: String, detail: String },
    /// The case could not be judged (precondition not met, fault never delivered ...).
    Skip(String),
}

#[derive(Clone, Debug)]
pub struct CaseOut {
    pub cell: String,
    pub nontrivial: bool,
    pub outcome: Outcome,
    pub desc: String,
    /// number of evaluations this record stands for (aggregated sweeps)
    pub count: u64,
}

impl CaseOut {
    pub fn held(cell: impl Into<String>, nontrivial: bool, desc: impl Into<String>) -> Self {
        CaseOut {
            cell: cell.into(),
            nontrivial,
            outcome: Outcome::Held,
            desc: desc.into(),
            count: 1,
        }
    }
    pub fn viol(
        cell: impl Into<String>,
        sig: impl Into<String>,
        detail: impl Into<String>,
        desc: impl Into<String>,
    ) -> Self {
        CaseOut {
            cell: cell.into(),
            nontrivial: true,
            outcome: Outcome::Violation {
                sig: sig.into(),
                detail: detail.into(),
            },
            desc: desc.into(),
            count: 1,
        }
    }
    pub fn skip(cell: impl Into<String>, why: impl Into<String>, desc: impl Into<String>) -> Self {
        CaseOut {
            cell: cell.into(),
            nontrivial: false,
            outcome: Outcome::Skip(why.into()),
            desc: desc.into(),
            count: 1,
        }
    }
    pub fn times(mut self, n: u64) -> Self {
        self.count = n;
        self
    }
}

#[derive(Clone, Debug)]
pub struct PanicInfo {
    pub msg: String,
    pub loc: String,
}

impl PanicInfo {
    /// `file:line` with the repository prefix stripped.
    pub fn site(&self) -> String {
        self.loc.clone()
    }
    pub fn short_msg(&self) -> String {
        let m: String = self.msg.chars().take(160).collect();
        m
    }
}

static LAST_PANIC: Mutex<Option<PanicInfo>> = Mutex::new(None);
static ALL_PANICS: Mutex<Vec<PanicInfo>> = Mutex::new(Vec::new());

pub fn install_panic_hook() {
    std::panic::set_hook(Box::new(|info| {
        let msg = if let Some(s) = info.payload().downcast_ref::<&str>() {
            s.to_string()
        } else if let Some(s) = info.payload().downcast_ref::<String>() {
            s.clone()
        } else {
            "non-string panic".to_string()
        };
        let loc = info
            .location()
            .map(|l| {
                let f = l.file();
                let f = f.strip_prefix("/repo/").unwrap_or(f);
                format!("{}:{}", f, l.line())
            })
            .unwrap_or_else(|| "?".into());
        let pi = PanicInfo { msg, loc };
        if let Ok(mut g) = ALL_PANICS.lock() {
            if g.len() < 64 {
                g.push(pi.clone());
            }
        }
        if let Ok(mut g) = LAST_PANIC.lock() {
            *g = Some(pi);
        }
        if std::env::var("LZV_PANIC_TRACE").is_ok() {
            eprintln!("panic: {info}");
        }
    }));
}

/// Panics seen on any thread since the last call (library worker threads included).
pub fn take_thread_panics() -> Vec<PanicInfo> {
    std::mem::take(&mut *ALL_PANICS.lock().unwrap_or_else(|e| e.into_inner()))
}

/// Runs `f`, converting a panic into `Err(PanicInfo)`.
pub fn catch<T>(f: impl FnOnce() -> T) -> Result<T, PanicInfo> {
    if let Ok(mut g) = LAST_PANIC.lock() {
        *g = None;
    }
    match catch_unwind(AssertUnwindSafe(f)) {
        Ok(v) => Ok(v),
        Err(_) => {
            let pi = LAST_PANIC
                .lock()
                .ok()
                .and_then(|mut g| g.take())
                .unwrap_or(PanicInfo {
                    msg: "panic (no info)".into(),
                    loc: "?".into(),
                });
            Err(pi)
        }
    }
}

pub struct Shard {
    pub out: Box<dyn Write>,
    pub progress: Option<std::fs::File>,
    pub cells: BTreeMap<String, (u64, u64)>, // cell -> (evaluations, nontrivial evaluations)
    pub samples: Vec<String>,
    pub evaluations: u64,
    pub held: u64,
    pub skipped: u64,
    pub skip_reasons: BTreeMap<String, u64>,
    pub violations: u64,
    pub printed_violations: u64,
    pub sigs: BTreeMap<String, u64>,
    sample_rng: Rng,
}

impl Shard {
    pub fn new(out: Box<dyn Write>, progress_path: Option<&str>) -> Self {
        let progress = progress_path.and_then(|p| std::fs::File::create(p).ok());
        Shard {
            out,
            progress,
            cells: BTreeMap::new(),
            samples: Vec::new(),
            evaluations: 0,
            held: 0,
            skipped: 0,
            skip_reasons: BTreeMap::new(),
            violations: 0,
            printed_violations: 0,
            sigs: BTreeMap::new(),
            sample_rng: Rng::new(12345),
        }
    }

    pub fn mark(&mut self, idx: u64) {
        if let Some(f) = self.progress.as_mut() {
            use std::io::{Seek, SeekFrom};
            let _ = f.seek(SeekFrom::Start(0));
            let _ = f.write_all(format!("{idx:>20}\n").as_bytes());
        }
    }

    pub fn record(&mut self, idx: u64, c: CaseOut) {
        self.evaluations += c.count;
        let e = self.cells.entry(c.cell.clone()).or_insert((0, 0));
        e.0 += c.count;
        match &c.outcome {
            Outcome::Held => {
                self.held += c.count;
                if c.nontrivial {
                    e.1 += c.count;
                }
                if self.samples.len() < 6 {
                    self.samples.push(format!("#{idx} [{}] {}", c.cell, c.desc));
                } else if self.sample_rng.chance(1, 200) {
                    let i = self.sample_rng.usize_below(self.samples.len());
                    self.samples[i] = format!("#{idx} [{}] {}", c.cell, c.desc);
                }
            }
            Outcome::Skip(why) => {
                self.skipped += c.count;
                *self.skip_reasons.entry(why.clone()).or_insert(0) += c.count;
            }
            Outcome::Violation { sig, detail } => {
                self.violations += c.count;
                let n = self.sigs.entry(sig.clone()).or_insert(0);
                let first = *n == 0;
                *n += c.count;
                // print the first few per signature in full
                if (first || *n <= 3) && self.printed_violations < 400 {
                    self.printed_violations += 1;
                    let line = Obj::new()
                        .s("t", "violation")
                        .n("idx", idx)
                        .s("cell", &c.cell)
                        .s("sig", sig)
                        .s("detail", detail)
                        .s("desc", &c.desc)
                        .build();
                    let _ = writeln!(self.out, "{line}");
                    let _ = self.out.flush();
                }
            }
        }
    }

    pub fn finish(&mut self, extra: &[(String, String)]) {
        let mut cells = String::from("{");
        for (i, (k, v)) in self.cells.iter().enumerate() {
            if i > 0 {
                cells.push(',');
            }
            cells.push_str(&format!("{}:[{},{}]", jstr(k), v.0, v.1));
        }
        cells.push('}');
        let mut sigs = String::from("{");
        for (i, (k, v)) in self.sigs.iter().enumerate() {
            if i > 0 {
                sigs.push(',');
            }
            sigs.push_str(&format!("{}:{}", jstr(k), v));
        }
        sigs.push('}');
        let mut skips = String::from("{");
        for (i, (k, v)) in self.skip_reasons.iter().enumerate() {
            if i > 0 {
                skips.push(',');
            }
            skips.push_str(&format!("{}:{}", jstr(k), v));
        }
        skips.push('}');
        let mut o = Obj::new()
            .s("t", "summary")
            .n("evaluations", self.evaluations)
            .n("held", self.held)
            .n("skipped", self.skipped)
            .n("violations", self.violations)
            .raw("cells", &cells)
            .raw("sigs", &sigs)
            .raw("skips", &skips)
            .raw("samples", &crate::util::jarr_str(&self.samples));
        for (k, v) in extra {
            o = o.raw(k, v);
        }
        let _ = writeln!(self.out, "{}", o.build());
        let _ = self.out.flush();
    }
}

/// JSON object of the hook coverage counters.
pub fn counters_json() -> String {
    let c = lzma_rust2::verif::counters();
    let mut s = String::from("{");
    for (i, name) in lzma_rust2::verif::KIND_NAMES.iter().enumerate() {
        if i > 0 {
            s.push(',');
        }
        s.push_str(&format!("{}:{}", jstr(name), c[i]));
    }
    s.push('}');
    s
}

// ---------------------------------------------------------------------------------------------
// Run-wide statistics (emitted in the shard summary as x_<name> sums and xs_<name> sets)
// ---------------------------------------------------------------------------------------------

static STATS: Mutex<BTreeMap<String, u64>> = Mutex::new(BTreeMap::new());
static MAXES: Mutex<BTreeMap<String, u64>> = Mutex::new(BTreeMap::new());
static SETS: Mutex<BTreeMap<String, std::collections::BTreeSet<u64>>> = Mutex::new(BTreeMap::new());

pub fn stat_add(name: &str, n: u64) {
    let mut g = STATS.lock().unwrap_or_else(|e| e.into_inner());
    *g.entry(name.to_string()).or_insert(0) += n;
}

pub fn stat_max(name: &str, n: u64) {
    let mut g = MAXES.lock().unwrap_or_else(|e| e.into_inner());
    let e = g.entry(name.to_string()).or_insert(0);
    if n > *e {
        *e = n;
    }
}

pub fn set_insert(name: &str, v: u64) {
    let mut g = SETS.lock().unwrap_or_else(|e| e.into_inner());
    let s = g.entry(name.to_string()).or_default();
    if s.len() < 20000 {
        s.insert(v);
    }
}

pub fn stats_extra() -> Vec<(String, String)> {
    let mut out = Vec::new();
    for (k, v) in STATS.lock().unwrap_or_else(|e| e.into_inner()).iter() {
        out.push((format!("x_{k}"), format!("{v}")));
    }
    for (k, v) in MAXES.lock().unwrap_or_else(|e| e.into_inner()).iter() {
        out.push((format!("xm_{k}"), format!("{v}")));
    }
    for (k, v) in SETS.lock().unwrap_or_else(|e| e.into_inner()).iter() {
        let items: Vec<String> = v.iter().map(|x| format!("{x}")).collect();
        out.push((format!("xs_{k}"), format!("[{}]", items.join(","))));
    }
    out
}
