//! C10 - dropping or finishing an MT reader/writer releases all of its threads; the worker limit is
//! respected.

use std::io::{Cursor, Read, Write};
use std::num::NonZeroU64;

use lzma_rust2::verif::{self, Fp};
use lzma_rust2::{
    EncodeMode, LZIPOptions, LZIPReaderMT, LZIPWriterMT, LZMA2Options, LZMA2ReaderMT, LZMA2WriterMT, LZMAOptions, MFType,
};

use crate::case::{stat_add, stat_max, CaseOut, Ctx};
use crate::mt::{self, Census, Guarded};
use crate::ours::{encode, Container, Spec};

pub const STEER: u64 = 16;

pub fn n_cases(ctx: &Ctx) -> u64 {
    let base = match (ctx.variant.as_str(), ctx.thorough()) {
        ("miri", false) => 112,
        ("miri", true) => 3000,
        ("tsan", false) => 150,
        ("tsan", true) => 1500,
        (_, false) => 2500,
        (_, true) => 30000,
    };
    STEER + ctx.scaled(base)
}

fn fast_opts(dict: u32) -> LZMAOptions {
    LZMAOptions::new(dict, 3, 0, 2, EncodeMode::Fast, 32, MFType::HC4, 0)
}

#[derive(Debug, Clone, Copy, PartialEq)]
pub enum DropPoint {
    Immediately,
    AfterPartialIo,
    MidUnit,
    AfterAllIo,
    AfterError,
    AfterFinish,
    /// finish() whose final sink write / flush fails
    AfterFailedFinish,
    /// everything flushed (pool idle), then exactly one more complete unit is written and the object
    /// is dropped immediately
    IdleThenUnitThenDrop,
    /// the source (readers) or the sink (writers) panics in the middle of a call; the object is
    /// dropped by the unwinding
    Unwinding,
}

pub const WORKER_REQUESTS: [u32; 9] = [0, 1, 2, 3, 16, 256, 257, 1000, u32::MAX];

/// Source / sink of the harness that panics in its n-th read or write call (seeks do not count).
struct PanicAt<T> {
    inner: T,
    calls_left: usize,
}

impl<T> PanicAt<T> {
    fn tick(&mut self) {
        if self.calls_left == 0 {
            panic!("HARNESS-INJECTED panic in the caller's source/sink");
        }
        self.calls_left -= 1;
    }
}

impl<T: Read> Read for PanicAt<T> {
    fn read(&mut self, buf: &mut [u8]) -> std::io::Result<usize> {
        self.tick();
        self.inner.read(buf)
    }
}

impl<T: std::io::Seek> std::io::Seek for PanicAt<T> {
    fn seek(&mut self, pos: std::io::SeekFrom) -> std::io::Result<u64> {
        self.inner.seek(pos)
    }
}

impl<T: Write> Write for PanicAt<T> {
    fn write(&mut self, buf: &[u8]) -> std::io::Result<usize> {
        self.tick();
        self.inner.write(buf)
    }
    fn flush(&mut self) -> std::io::Result<()> {
        self.inner.flush()
    }
}

pub fn run_case(ctx: &Ctx, idx: u64) -> Vec<CaseOut> {
    let mut r = ctx.rng(idx);
    let tiny = ctx.is("miri");
    let kind = if idx < STEER { idx % 4 } else { r.below(4) };
    let (tname, reader, lzip) = match kind {
        0 => ("LZMA2ReaderMT", true, false),
        1 => ("LZIPReaderMT", true, true),
        2 => ("LZMA2WriterMT", false, false),
        _ => ("LZIPWriterMT", false, true),
    };
    let point = if idx < STEER {
        match idx / 4 {
            0 => DropPoint::Immediately,
            1 => DropPoint::AfterPartialIo,
            2 => DropPoint::AfterAllIo,
            _ => DropPoint::AfterFinish,
        }
    } else {
        *r.pick(&[
            DropPoint::Immediately,
            DropPoint::AfterPartialIo,
            DropPoint::MidUnit,
            DropPoint::AfterAllIo,
            DropPoint::AfterError,
            DropPoint::AfterFinish,
            DropPoint::AfterFailedFinish,
            DropPoint::IdleThenUnitThenDrop,
            DropPoint::IdleThenUnitThenDrop,
            DropPoint::Unwinding,
        ])
    };
    let requested = if idx < STEER { 2 } else { *r.pick(&WORKER_REQUESTS) };
    // saturating load for the writers: big incompressible units arrive much faster than they can be
    // compressed, so every started worker is busy and units queue up - the moment at which the pool
    // decides whether it may grow
    let heavy = !tiny && !reader && idx >= STEER && r.chance(1, 4);
    let unit = if heavy { 150_000usize } else { 4096usize };
    let units = if tiny {
        2
    } else if heavy {
        4 + r.usize_below(6)
    } else {
        1 + r.usize_below(10)
    };
    let len = (units - 1) * unit + 1 + r.usize_below(unit);
    mt::no_sched();
    let data = mt::stamped_data(&mut r, len, unit, !heavy);
    // stream for readers
    let stream: Vec<u8> = if reader {
        if tiny && !lzip {
            mt::handmade_lzma2(&mut r, units, 2, 40, true).0
        } else {
            let spec = Spec {
                c: if lzip { Container::Lzip { member: Some(unit as u64) } } else { Container::Lzma2 { chunk: Some(unit as u64) } },
                o: fast_opts(4096),
            };
            let mut s = encode(&spec, &data, &vec![unit; len / unit + 1], 0).expect("stream maker");
            if point == DropPoint::AfterError && s.len() > 40 {
                let p = 20 + r.usize_below(s.len() - 40);
                s[p] ^= 0x55;
                if !lzip {
                    s.pop();
                }
            }
            s
        }
    } else {
        Vec::new()
    };
    // schedule: steering cases pin the lost-wake-up window; others are random
    let sched = if idx < STEER {
        verif::reset_fps(idx);
        let us = [0u32, 50, 500, 3000][(idx % 4) as usize];
        let _ = us;
        verif::set_fp(Fp::StealBeforeWait, 1 + 2000, 65536, 0, 0);
        if idx % 2 == 1 {
            verif::set_fp(Fp::CloseBetweenStoreAndNotify, 1 + 300, 65536, 0, 0);
        }
        "steer: worker sleeps 2 ms between the closed check and wait".to_string()
    } else {
        let s = mt::random_sched(&mut r);
        // the interesting sites for C10, more often
        if r.chance(1, 2) {
            let us = *r.pick(&[50u32, 500, 2000]);
            verif::set_fp(Fp::StealBeforeWait, 1 + us, 65536, 0, 0);
            format!("{s},steal_before_wait+={us}us")
        } else {
            s
        }
    };
    if !mt::wait_quiet() {
        mt::no_sched();
        return vec![CaseOut::skip(format!("{tname}|{point:?}"), "workers of an earlier scenario are still alive (their leak was reported there)", "")];
    }
    mt::observe_begin();
    let io_amount = r.usize_below(len + 1);
    let s2 = stream.clone();
    let d2 = data.clone();
    let panic_call = r.usize_below(6);
    let g = mt::guarded(3000, 90_000, move || {
        // everything including the drop happens on this thread
        if point == DropPoint::Unwinding {
            // the panic is raised by the harness's own source / sink and caught right here; what is
            // judged is only what the library's Drop does while the thread is unwinding
            let _ = std::panic::catch_unwind(std::panic::AssertUnwindSafe(|| {
                if reader {
                    let mut sink = Vec::new();
                    if lzip {
                        if let Ok(mut rd) = LZIPReaderMT::new(PanicAt { inner: Cursor::new(s2.clone()), calls_left: 3 + panic_call }, requested) {
                            let _ = rd.read_to_end(&mut sink);
                        }
                    } else {
                        let mut rd = LZMA2ReaderMT::new(PanicAt { inner: Cursor::new(s2.clone()), calls_left: panic_call }, 4096, None, requested);
                        let _ = rd.read_to_end(&mut sink);
                    }
                } else {
                    let sink = PanicAt { inner: Cursor::new(Vec::new()), calls_left: panic_call };
                    if lzip {
                        let o = LZIPOptions { lzma_options: fast_opts(4096), member_size: NonZeroU64::new(unit as u64) };
                        if let Ok(mut w) = LZIPWriterMT::new(sink, o, requested) {
                            let _ = w.write_all(&d2);
                            let _ = w.flush();
                            let _ = w.finish();
                        }
                    } else {
                        let o = LZMA2Options { lzma_options: fast_opts(4096), chunk_size: NonZeroU64::new(unit as u64) };
                        if let Ok(mut w) = LZMA2WriterMT::new(sink, o, requested) {
                            let _ = w.write_all(&d2);
                            let _ = w.flush();
                            let _ = w.finish();
                        }
                    }
                }
            }));
            return;
        }
        if reader {
            let mut buf = vec![0u8; 1 + io_amount.min(70_000)];
            macro_rules! drive_reader {
                ($rd:expr) => {{
                    let mut rd = $rd;
                    match point {
                        DropPoint::Immediately => {}
                        DropPoint::AfterPartialIo | DropPoint::MidUnit => {
                            let _ = rd.read(&mut buf);
                            if point == DropPoint::MidUnit {
                                let _ = rd.read(&mut buf[..1]);
                            }
                        }
                        _ => {
                            let mut sink = Vec::new();
                            let _ = rd.read_to_end(&mut sink);
                            let _ = rd.read(&mut buf);
                        }
                    }
                    drop(rd);
                }};
            }
            if lzip {
                if let Ok(rd) = LZIPReaderMT::new(Cursor::new(s2), requested) {
                    drive_reader!(rd)
                }
            } else {
                drive_reader!(LZMA2ReaderMT::new(s2.as_slice(), 4096, None, requested))
            }
        } else {
            macro_rules! drive_writer {
                ($w:expr) => {{
                    let mut w = $w;
                    match point {
                        DropPoint::Immediately | DropPoint::Unwinding => drop(w),
                        DropPoint::AfterPartialIo | DropPoint::MidUnit => {
                            let _ = w.write_all(&d2[..io_amount]);
                            if point == DropPoint::MidUnit {
                                let _ = w.flush();
                                let _ = w.write(&d2[..io_amount.min(10)]);
                            }
                            drop(w)
                        }
                        DropPoint::AfterAllIo | DropPoint::AfterError => {
                            let _ = w.write_all(&d2);
                            let _ = w.flush();
                            drop(w)
                        }
                        DropPoint::IdleThenUnitThenDrop => {
                            let _ = w.write_all(&d2);
                            let _ = w.flush();
                            let one_unit = vec![0x55u8; unit];
                            let _ = w.write_all(&one_unit);
                            drop(w)
                        }
                        DropPoint::AfterFinish | DropPoint::AfterFailedFinish => {
                            let _ = w.write_all(&d2);
                            let _ = w.finish();
                        }
                    }
                }};
            }
            // the sink fails only for AfterFailedFinish: either its flush, or every write from the
            // last data unit on (so that the end marker / last member cannot be written)
            let plan = if point == DropPoint::AfterFailedFinish {
                if io_amount % 2 == 0 {
                    crate::fio::WritePlan { flush_err_at: Some((0, std::io::ErrorKind::TimedOut)), ..Default::default() }
                } else {
                    crate::fio::WritePlan { err_at_call: Some((units.saturating_sub(1), std::io::ErrorKind::TimedOut)), ..Default::default() }
                }
            } else {
                crate::fio::WritePlan::default()
            };
            let sink = crate::fio::FaultyWrite::new(plan);
            if lzip {
                let o = LZIPOptions { lzma_options: fast_opts(4096), member_size: NonZeroU64::new(unit as u64) };
                if let Ok(w) = LZIPWriterMT::new(sink, o, requested) {
                    drive_writer!(w)
                }
            } else {
                let o = LZMA2Options { lzma_options: fast_opts(4096), chunk_size: NonZeroU64::new(unit as u64) };
                if let Ok(w) = LZMA2WriterMT::new(sink, o, requested) {
                    drive_writer!(w)
                }
            }
        }
    });
    let cell = format!("{tname}|{point:?}|req{}{}", if requested > 256 { ">256".to_string() } else { requested.to_string() }, if heavy { "|saturating" } else { "" });
    let desc = format!("{tname} requested_workers={requested} units={units} unit_size={unit} drop={point:?} io={io_amount} sched=[{sched}]");
    let mut out = Vec::new();
    match g {
        Guarded::Stuck(w) => {
            let _ = mt::observe_end();
            mt::no_sched();
            return vec![CaseOut::viol(cell, format!("drop-or-call-never-returns {tname} {point:?}"), w, desc)];
        }
        Guarded::Timeout => {
            let _ = mt::observe_end();
            mt::no_sched();
            return vec![CaseOut::skip(cell, "watchdog without stuck predicate (inconclusive)", desc)];
        }
        Guarded::Panicked(p) => {
            out.push(CaseOut::viol(cell.clone(), format!("panic {tname} {point:?} @{}", p.site()), p.short_msg(), desc.clone()));
        }
        Guarded::Done(()) => {}
    }
    // every worker must terminate now that the object is gone
    let census = mt::wait_workers_gone(10_000);
    let obs = mt::observe_end();
    mt::no_sched();
    stat_add("mt_runs", 1);
    stat_add("workers_started", obs.started_workers);
    stat_max("peak_workers_seen", obs.peak_workers);
    let hits = &obs.fp_hits;
    if hits[Fp::StealBeforeWait as usize].1 > 0 {
        stat_add("runs_with_delay_in_steal_window", 1);
    }
    if hits[Fp::CloseBetweenStoreAndNotify as usize].1 > 0 {
        stat_add("runs_with_delay_in_close_window", 1);
    }
    let limit = requested.clamp(1, 256) as u64;
    if obs.peak_workers > limit {
        out.push(CaseOut::viol(cell.clone(), format!("worker-limit {tname}"), format!("peak {} > limit {limit}", obs.peak_workers), desc.clone()));
    }
    match census {
        Census::Zero => {
            if out.is_empty() {
                out.push(CaseOut::held(cell, obs.started_workers > 0, format!("{desc} started={} peak={}", obs.started_workers, obs.peak_workers)));
            }
        }
        Census::Leaked(w) => out.push(CaseOut::viol(cell, format!("worker-leak {tname}"), w, desc)),
        Census::Inconclusive(w) => out.push(CaseOut::skip(cell, format!("census inconclusive: {w}"), desc)),
    }
    out
}
