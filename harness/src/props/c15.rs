//! C15 - unsafe fast paths never access memory outside their buffers.
//!
//! The deciding monitors are external to this file: AddressSanitizer, Miri and valgrind memcheck
//! (a report kills the shard, the runner attributes it to the running case) plus the shadow
//! assertions of the hooks (a failed one panics with "VERIF-SHADOW"). This module supplies the
//! workload: the C01 encoder cases, the C06 decoder cases and a steering block aimed at the unsafe
//! sites, and it reports how often every unsafe site executed under the tool.

use lzma_rust2::verif;
use lzma_rust2::{EncodeMode, LZMAOptions, MFType};

use crate::case::{catch, stat_add, CaseOut, Ctx, Outcome};
use crate::gen::{self, Family};
use crate::ours::{decode_bytes, encode, Container, Spec};
use crate::props::{c01, c06};
use crate::util::Rng;

pub const STEER: u64 = 40;

pub fn n_cases(ctx: &Ctx) -> u64 {
    let base = match (ctx.variant.as_str(), ctx.thorough()) {
        ("miri", false) => 10,
        ("miri", true) => 120,
        ("vg", false) => 60,
        ("vg", true) => 1500,
        ("asan", false) => 1500,
        ("asan", true) => 40_000,
        (_, false) => 3000,
        (_, true) => 60_000,
    };
    STEER + ctx.scaled(base)
}

fn relabel(prefix: &str, outs: Vec<CaseOut>) -> Vec<CaseOut> {
    outs.into_iter()
        .map(|mut c| {
            c.cell = format!("{prefix}|{}", c.cell.split('|').take(4).collect::<Vec<_>>().join("|"));
            if let Outcome::Violation { sig, detail } = &c.outcome {
                if detail.contains("VERIF-SHADOW") || sig.contains("VERIF-SHADOW") {
                    let site = detail.split("site=").nth(1).and_then(|s| s.split_whitespace().next()).unwrap_or("?").to_string();
                    c.outcome = Outcome::Violation {
                        sig: format!("shadow-assertion site={site}"),
                        detail: detail.clone(),
                    };
                } else {
                    // functional failures are judged by C01 / C06, not here
                    c.outcome = Outcome::Skip(format!("functional failure judged elsewhere: {sig}"));
                    c.nontrivial = false;
                }
            }
            c
        })
        .collect()
}

fn steer(ctx: &Ctx, idx: u64) -> Vec<CaseOut> {
    let mut r = Rng::new(0xC15 + idx);
    let tiny = ctx.slow();
    match idx {
        0..=7 => {
            // direct bits at and beyond the end of the chunk buffer, through the accessor
            let mut n = 0u64;
            for k in 0..(if tiny { 30 } else { 3000 }) {
                let len = match k % 5 {
                    0 => 0usize,
                    1 => 1,
                    2 => r.usize_below(8),
                    3 => 65531,
                    _ => r.usize_below(300),
                };
                let len = if tiny { len.min(64) } else { len };
                let payload = if k % 3 == 0 { vec![0xFFu8; len] } else { r.bytes(len) };
                let range = if k % 2 == 0 { r.next_u32() | 0x0100_0000 } else { r.next_u32() >> 8 };
                let code = r.next_u32() % range.max(1);
                let count = 1 + r.below(26) as u32;
                let rounds = 1 + r.below(40) as u32;
                let _ = verif::direct_bits(&payload, range, code, count, rounds);
                n += 1;
            }
            stat_add("direct_bits_accessor_runs", n);
            vec![CaseOut::held("steer|direct-bits-at-buffer-end", true, format!("{n} decode_direct_bits runs over payloads of 0..65531 bytes placed at the end of the chunk buffer, up to 40 x 26 bits each"))]
        }
        8..=11 => {
            // LZMA2 chunks of 5-6 compressed bytes, dictionary resets, garbage payloads
            let mut outs = Vec::new();
            for k in 0..(if tiny { 10 } else { 400 }) {
                let comp = 5 + (k % 3);
                let unc = 1 + r.usize_below(if tiny { 300 } else { 70_000 });
                let mut s = vec![0xE0 | ((unc - 1) >> 16) as u8, ((unc - 1) >> 8) as u8, (unc - 1) as u8, 0, (comp - 1) as u8, r.below(225) as u8 % 45];
                s.push(0);
                let p = r.bytes(comp - 1);
                s.extend_from_slice(&p);
                if r.chance(1, 2) {
                    for b in s.iter_mut().skip(7) {
                        *b = 0xFF;
                    }
                }
                s.push(0);
                let spec = Spec { c: Container::Lzma2 { chunk: None }, o: LZMAOptions::new(4096, 3, 0, 2, EncodeMode::Fast, 32, MFType::HC4, 0) };
                let res = catch(|| decode_bytes(&spec, &s, 0, &[4096], 1 << 20));
                if let Err(p) = res {
                    if p.msg.contains("VERIF-SHADOW") {
                        outs.push(CaseOut::viol("steer|tiny-chunks", "shadow-assertion (tiny chunk)", p.msg, crate::util::hex(&s)));
                    }
                }
            }
            if outs.is_empty() {
                outs.push(CaseOut::held("steer|tiny-chunks", true, "LZMA2 chunks with 5-7 compressed bytes declaring up to 70 000 uncompressed bytes"));
            }
            outs
        }
        24..=39 => {
            // encoder around a window move: the position at which the window is full is found by a
            // probing encode (hook counter), the bytes around it repeat what lies almost a whole
            // dictionary in front of them, so that right after the move the match finders and the
            // rep probes hand candidates at the largest legal distances to the unchecked accesses
            if ctx.is("miri") {
                return vec![CaseOut::skip("steer|encoder-window-move", "1 MB encodes are out of reach of the interpreter", "")];
            }
            use crate::props::c07;
            let comps = c07::slide_components();
            let c = comps[idx as usize % comps.len()].clone();
            let mut o = c07::slide_opts(&mut r);
            if idx % 4 != 3 {
                // fast mode keeps a single extra byte in front of the dictionary
                o.mode = EncodeMode::Fast;
            }
            let spec = Spec { c, o };
            let cell = "steer|encoder-window-move";
            let shadow = |msg: &str| msg.contains("VERIF-SHADOW");
            let (data, edge, _e2, plans) = match c07::slide_setup(&spec, "window-move", cell, &mut r) {
                Ok(x) => x,
                Err(o) => {
                    if let Outcome::Violation { detail, .. } = &o.outcome {
                        if shadow(detail) {
                            return vec![CaseOut::viol(cell, "shadow-assertion (encoder, window move)", detail.clone(), spec.desc())];
                        }
                    }
                    return vec![CaseOut::skip(cell, "probing encode failed (functional failure, judged by C07)", spec.desc())];
                }
            };
            let mut outs = Vec::new();
            let mut runs = 0u64;
            let picks: Vec<usize> = if tiny { vec![0, 9] } else { (0..plans.len()).collect() };
            let single = (String::from("one write"), vec![data.len()], 0usize);
            for (what, partition, flush_every) in std::iter::once(&single).chain(picks.iter().filter_map(|&i| plans.get(i))) {
                runs += 1;
                if let Err(p) = catch(|| encode(&spec, &data, partition, *flush_every)) {
                    if shadow(&p.msg) {
                        outs.push(CaseOut::viol(cell, "shadow-assertion (encoder, window move)", p.msg, format!("{} len={} window full after {edge} bytes: {what}", spec.desc(), data.len())));
                        break;
                    }
                }
            }
            stat_add("window_move_encodes", runs);
            if outs.is_empty() {
                outs.push(CaseOut::held(cell, true, format!("{} len={} window full after {edge} bytes: {runs} call histories with far matches around the move", spec.desc(), data.len())));
            }
            outs
        }
        _ => {
            // encoder: matches touching both ends of the window, finishing with < 8 bytes left,
            // preset dictionary, window moves, biased positions
            let dict = 4096u32;
            let mf = if idx % 2 == 0 { MFType::HC4 } else { MFType::BT4 };
            let mode = if idx % 4 < 2 { EncodeMode::Fast } else { EncodeMode::Normal };
            let mut o = LZMAOptions::new(dict, 3, 0, 2, mode, if idx % 3 == 0 { 273 } else { 8 }, mf, 0);
            let len = if tiny { 700 } else { 700_000 + (idx as usize % 8) };
            let mut data = gen::gen_data(&mut r, if idx % 2 == 0 { Family::Periodic } else { Family::EditRepeat }, len);
            // the tail repeats the head: matches at distance ~dict at the very end, 0..7 bytes left
            let tail = (idx % 8) as usize;
            let n = data.len();
            if n > 600 {
                let (a, b) = data.split_at_mut(n - 300 - tail);
                let back = (dict as usize).min(a.len());
                b[..300].copy_from_slice(&a[a.len() - back..][..300]);
            }
            if idx % 5 == 0 {
                o.preset_dict = Some(data[..2000.min(n)].to_vec());
            }
            verif::set_lz_pos_bias(if idx % 3 == 1 { 0x7FFF_FFFF - 5000 } else { 0 });
            let spec = Spec { c: if idx % 2 == 0 { Container::Lzma2 { chunk: None } } else { Container::LzmaRawMarker }, o };
            let res = catch(|| encode(&spec, &data, &[data.len()], 0));
            verif::set_lz_pos_bias(0);
            match res {
                Err(p) if p.msg.contains("VERIF-SHADOW") => vec![CaseOut::viol("steer|encoder-window-ends", "shadow-assertion (encoder)", p.msg, spec.desc())],
                _ => vec![CaseOut::held("steer|encoder-window-ends", true, format!("{} len={len} tail={tail}", spec.desc()))],
            }
        }
    }
}

pub fn run_case(ctx: &Ctx, idx: u64) -> Vec<CaseOut> {
    if ctx.is("miri") {
        // Miri cannot execute the asm block; everything else under `optimization` is interpreted
        verif::set_force_portable_direct_bits(true);
    }
    if idx < STEER {
        return steer(ctx, idx);
    }
    let j = idx - STEER;
    if j % 2 == 0 {
        // encoder workload of C01 (its steering block first)
        relabel("enc", c01::run_case(ctx, j / 2))
    } else {
        // decoder workload of C06: skip its slow steering block under the slow tools
        let k = if ctx.slow() { c06::STEER + j / 2 } else { j / 2 };
        relabel("dec", c06::run_case(ctx, k))
    }
}

/// Per-site execution counts (evidence that "silent" is not "never reached").
pub fn unsafe_site_counts() -> Vec<(String, String)> {
    let c = verif::counters();
    use verif::Kind as K;
    let mut v = Vec::new();
    for (k, name) in [
        (K::UnsafeExtendMatch, "x_site_extend_match_get_unchecked"),
        (K::UnsafeFastReject, "x_site_fast_reject_read_unaligned"),
        (K::UnsafeDirectBitsAsm, "x_site_direct_bits_asm"),
        (K::UnsafeAlignedAlloc, "x_site_aligned_alloc"),
        (K::DirectBitsPortable, "x_site_direct_bits_portable_forced"),
        (K::Normalize, "x_site_normalize_simd"),
        (K::WindowMove, "x_window_moves"),
    ] {
        v.push((name.to_string(), format!("{}", c[k as usize])));
    }
    v
}
