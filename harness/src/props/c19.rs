//! C19 - a writer that reports success has produced a decodable stream (option boundary grid).

use std::num::NonZeroU64;

use lzma_rust2::{EncodeMode, LZMAOptions, MFType, XZOptions};

use crate::case::{catch, stat_add, CaseOut, Ctx};
use crate::gen::{self, Family};
use crate::mt::{self, Guarded};
use crate::ours::{decode_bytes, encode, filter_type, Container, Spec};
use crate::util::{first_diff, Rng};

#[derive(Clone, Debug)]
pub struct Cell {
    pub writer: &'static str,
    pub field: String,
    pub spec: Spec,
    /// XZ options that cannot be expressed through `Spec` (raw filter list)
    pub xz_raw_filters: Option<Vec<(u8, u32)>>,
    /// `LZMAWriter::new(out, options, use_header, use_end_marker, expected size given)`: the general
    /// constructor, every combination of its three framing arguments
    pub lzma_new: Option<(bool, bool, bool)>,
    pub in_range: bool,
}

fn base(mode_normal: bool) -> LZMAOptions {
    if mode_normal {
        LZMAOptions::new(1 << 16, 3, 0, 2, EncodeMode::Normal, 64, MFType::BT4, 0)
    } else {
        LZMAOptions::new(1 << 16, 3, 0, 2, EncodeMode::Fast, 32, MFType::HC4, 0)
    }
}

pub fn writers() -> Vec<(&'static str, Container)> {
    vec![
        ("LZMAWriter(header)", Container::LzmaHeaderMarker),
        ("LZMAWriter(header+size)", Container::LzmaHeaderSized),
        ("LZMAWriter(raw)", Container::LzmaRawMarker),
        ("LZMA2Writer", Container::Lzma2 { chunk: None }),
        ("XZWriter", Container::Xz { check: 4, block: None, filters: vec![] }),
        ("LZIPWriter", Container::Lzip { member: None }),
        ("LZMA2WriterMT", Container::Lzma2Mt { chunk: 1 << 16, workers: 2 }),
        ("LZIPWriterMT", Container::LzipMt { member: 1 << 16, workers: 2 }),
    ]
}

/// The full grid of this run (deterministic).
pub fn grid() -> Vec<Cell> {
    let mut cells = Vec::new();
    for (wname, c) in writers() {
        for normal in [false, true] {
            let mname = if normal { "normal/bt4" } else { "fast/hc4" };
            let mut push = |field: String, o: LZMAOptions, cc: Container, in_range: bool| {
                cells.push(Cell {
                    writer: wname,
                    field: format!("{field} [{mname}]"),
                    spec: Spec { c: cc, o },
                    xz_raw_filters: None,
                    lzma_new: None,
                    in_range,
                });
            };
            let lzma2ish = !c.is_lzma1();
            // lc x lp grid (lc+lp around 4 matters for LZMA2/XZ)
            for lc in 0..=9u32 {
                for lp in 0..=5u32 {
                    let mut o = base(normal);
                    o.lc = lc;
                    o.lp = lp;
                    let ok = lc <= 8 && lp <= 4 && (!lzma2ish || lc + lp <= 4);
                    push(format!("lc={lc},lp={lp}"), o, c.clone(), ok);
                }
            }
            for pb in 0..=5u32 {
                let mut o = base(normal);
                o.pb = pb;
                push(format!("pb={pb}"), o, c.clone(), pb <= 4);
            }
            for dict in [0u32, 1, 4095, 4096, 4097, 65535, 1 << 20, (1 << 20) + 1] {
                let mut o = base(normal);
                o.dict_size = dict;
                push(format!("dict={dict}"), o, c.clone(), dict >= 4096);
            }
            for nice in [0u32, 1, 2, 3, 4, 7, 8, 9, 272, 273, 274, 300, 1000] {
                let mut o = base(normal);
                o.nice_len = nice;
                push(format!("nice_len={nice}"), o, c.clone(), (8..=273).contains(&nice));
            }
            for depth in [i32::MIN, -1, 0, 1, 1000, i32::MAX] {
                let mut o = base(normal);
                o.depth_limit = depth;
                push(format!("depth_limit={depth}"), o, c.clone(), true);
            }
            // preset dictionaries (headerless LZMA / LZMA2 / also given to containers that cannot carry one)
            // the oversized one is not constant: which part of it the two sides keep must matter
            let varied: Vec<u8> = (0..(1u32 << 16) + 4000).map(|i| (i.wrapping_mul(2654435761) >> 13) as u8).collect();
            let fits: Vec<u8> = varied[..3000].to_vec();
            for (pname, pd) in [("empty", Vec::new()), ("1-byte", vec![b'x']), ("3000-bytes", fits), ("oversized", varied)] {
                let mut o = base(normal);
                o.preset_dict = Some(pd);
                let carried = matches!(c, Container::LzmaRawMarker | Container::Lzma2 { .. });
                push(format!("preset_dict={pname}"), o, c.clone(), carried);
            }
            // size options of 1
            match &c {
                Container::Lzma2 { .. } => push("chunk_size=1".into(), base(normal), Container::Lzma2 { chunk: Some(1) }, true),
                Container::Xz { check, filters, .. } => push("block_size=1".into(), base(normal), Container::Xz { check: *check, block: Some(1), filters: filters.clone() }, true),
                Container::Lzip { .. } => push("member_size=1".into(), base(normal), Container::Lzip { member: Some(1) }, true),
                Container::Lzma2Mt { workers, .. } => push("chunk_size=1".into(), base(normal), Container::Lzma2Mt { chunk: 1, workers: *workers }, true),
                Container::LzipMt { workers, .. } => push("member_size=1".into(), base(normal), Container::LzipMt { member: 1, workers: *workers }, true),
                _ => {}
            }
            // size options at the upper end: nothing may be reserved for them up front
            for big in [1u64 << 32, 1 << 40, u64::MAX] {
                match &c {
                    Container::Lzma2 { .. } => push(format!("chunk_size={big:#x}"), base(normal), Container::Lzma2 { chunk: Some(big) }, true),
                    Container::Xz { check, filters, .. } => push(format!("block_size={big:#x}"), base(normal), Container::Xz { check: *check, block: Some(big), filters: filters.clone() }, true),
                    Container::Lzip { .. } => push(format!("member_size={big:#x}"), base(normal), Container::Lzip { member: Some(big) }, true),
                    Container::Lzma2Mt { workers, .. } => push(format!("chunk_size={big:#x}"), base(normal), Container::Lzma2Mt { chunk: big, workers: *workers }, true),
                    Container::LzipMt { workers, .. } => push(format!("member_size={big:#x}"), base(normal), Container::LzipMt { member: big, workers: *workers }, true),
                    _ => {}
                }
            }
            if let Container::Lzip { .. } | Container::LzipMt { .. } = &c {
                for dict in [(512u32 << 20) + 1, u32::MAX] {
                    let mut o = base(normal);
                    o.dict_size = dict;
                    // LZIP clamps to 512 MiB: far too much memory for a grid cell, only with tiny data and HC4
                    if !normal {
                        push(format!("dict={dict}(clamped by LZIP)"), o, c.clone(), false);
                    }
                }
            }
        }
        // XZ filter chains
        if wname == "XZWriter" {
            for (fname, chain, ok) in [
                ("delta=0", vec![(3u8, 0u32)], false),
                ("delta=1", vec![(3, 1)], true),
                ("delta=256", vec![(3, 256)], true),
                ("delta=257", vec![(3, 257)], false),
                ("delta=1000", vec![(3, 1000)], false),
                ("bcj-arm unaligned offset 2", vec![(7, 2)], false),
                ("bcj-ia64 unaligned offset 8", vec![(6, 8)], false),
                ("bcj-x86 offset 1", vec![(4, 1)], true),
                ("4 pre-filters", vec![(3, 1), (3, 2), (3, 3), (3, 4)], false),
                ("LZMA2 listed by the caller", vec![(0x21, 0)], false),
                ("LZMA2 listed in the middle", vec![(3, 1), (0x21, 0), (3, 2)], false),
            ] {
                cells.push(Cell {
                    writer: wname,
                    field: format!("filters: {fname}"),
                    spec: Spec { c: Container::Xz { check: 4, block: None, filters: vec![] }, o: base(false) },
                    xz_raw_filters: Some(chain),
                    lzma_new: None,
                    in_range: ok,
                });
            }
        }
    }
    // the general LZMAWriter constructor: header x end marker x expected size. What the reader gets is
    // what the stream itself carries (header) or what a container would store next to a raw stream
    // (properties, dictionary size, and the uncompressed size - 7z stores it). Every combination that
    // is accepted must therefore be decodable; a header that announces "size unknown" without an end
    // marker describes a stream no reader can delimit.
    for header in [false, true] {
        for marker in [false, true] {
            for sized in [false, true] {
                for normal in [false, true] {
                    let c = match (header, marker, sized) {
                        (true, _, _) => Container::LzmaHeaderSized,
                        (false, true, false) => Container::LzmaRawMarker,
                        (false, _, _) => Container::LzmaRawSized,
                    };
                    cells.push(Cell {
                        writer: "LZMAWriter::new",
                        field: format!("use_header={header},use_end_marker={marker},expected_size={} [{}]", if sized { "given" } else { "none" }, if normal { "normal/bt4" } else { "fast/hc4" }),
                        spec: Spec { c, o: base(normal) },
                        xz_raw_filters: None,
                        lzma_new: Some((header, marker, sized)),
                        // the undecidable combination may be rejected; all others are documented usage
                        in_range: !(header && !marker && !sized),
                    });
                }
            }
        }
    }
    cells
}

fn lzma_new_encode(o: &LZMAOptions, (header, marker, sized): (bool, bool, bool), data: &[u8]) -> std::io::Result<Vec<u8>> {
    use std::io::Write;
    let mut w = lzma_rust2::LZMAWriter::new(Vec::new(), o, header, marker, if sized { Some(data.len() as u64) } else { None })?;
    if let Err(e) = w.write_all(data) {
        let _ = w.finish();
        return Err(e);
    }
    w.finish()
}

pub const INPUTS: [(&str, usize); 4] = [("empty", 0), ("1-byte", 1), ("10KiB-text", 10_240), ("100KiB-random", 102_400)];

pub fn n_cases(ctx: &Ctx) -> u64 {
    let _ = ctx;
    grid().len() as u64
}

fn xz_encode_raw(o: &LZMAOptions, chain: &[(u8, u32)], data: &[u8]) -> std::io::Result<Vec<u8>> {
    use std::io::Write;
    let mut x = XZOptions::with_preset(6);
    x.lzma_options = o.clone();
    x.block_size = NonZeroU64::new(0);
    for (id, prop) in chain.iter().rev() {
        x.prepend_pre_filter(filter_type(*id), *prop);
    }
    let mut w = lzma_rust2::XZWriter::new(Vec::new(), x)?;
    // a caller's clean-up path calls finish() also after a failed write: it must not panic
    if let Err(e) = w.write_all(data) {
        let _ = w.finish();
        return Err(e);
    }
    w.finish()
}

pub fn run_case(ctx: &Ctx, idx: u64) -> Vec<CaseOut> {
    crate::ours::FINISH_AFTER_ERROR.store(true, std::sync::atomic::Ordering::Relaxed);
    let g = grid();
    let cell = &g[idx as usize % g.len()];
    let mut r = Rng::new(ctx.seed ^ (idx.wrapping_mul(0x9E37_79B9)));
    let mut out = Vec::new();
    let dbg = if ctx.is("dbg") { " [dbg]" } else { "" };
    for (iname, len) in INPUTS {
        // huge clamped LZIP dictionaries: only the two small inputs
        if cell.field.contains("clamped by LZIP") && len > 1 {
            continue;
        }
        let data = match iname {
            "10KiB-text" => gen::gen_data(&mut r, Family::Text, len),
            "100KiB-random" => gen::gen_data(&mut r, Family::Random, len),
            _ => gen::gen_data(&mut r, Family::Text, len),
        };
        let mut data = data;
        if let Some(pd) = &cell.spec.o.preset_dict {
            // the input starts with what the preset dictionary ends with, so that matches reach into it
            if pd.len() > 64 && data.len() >= 1024 {
                let k = (data.len() / 2).min(2000).min(pd.len());
                data[..k].copy_from_slice(&pd[pd.len() - k..]);
            }
        }
        let cname = format!("{}|{}|{}", cell.writer, cell.field, iname);
        let fieldclass = cell.field.split(" [").next().unwrap_or(&cell.field).to_string();
        let desc = format!("{} with {} ({}), input {iname}: {}", cell.writer, cell.field, if cell.in_range { "documented range" } else { "outside the documented range" }, cell.spec.desc());
        stat_add("grid_evaluations", 1);
        let spec = cell.spec.clone();
        let raw = cell.xz_raw_filters.clone();
        let lzma_new = cell.lzma_new;
        let d2 = data.clone();
        let enc = mt::guarded(8000, 240_000, move || match (&raw, lzma_new) {
            (Some(chain), _) => xz_encode_raw(&spec.o, chain, &d2),
            (None, Some(args)) => lzma_new_encode(&spec.o, args, &d2),
            (None, None) => encode(&spec, &d2, &[d2.len()], 0),
        });
        let bytes = match enc {
            Guarded::Done(Ok(b)) => b,
            Guarded::Done(Err(_)) => {
                // an error is always an acceptable answer to a bad option; for in-range cells it is C01/C02's business
                if cell.in_range {
                    out.push(CaseOut::viol(cname, format!("{}/{fieldclass}/in-range-options-rejected", cell.writer), "writer returned Err", desc));
                } else {
                    stat_add("rejected_with_err", 1);
                    out.push(CaseOut::held(cname, true, format!("{desc}: rejected with Err")));
                }
                continue;
            }
            Guarded::Panicked(p) => {
                out.push(CaseOut::viol(cname, format!("{}/{fieldclass}/panic@{}{dbg}", cell.writer, p.site()), p.short_msg(), desc));
                continue;
            }
            Guarded::Stuck(w) => {
                out.push(CaseOut::viol(cname, format!("{}/{fieldclass}/never-returns", cell.writer), w, desc));
                continue;
            }
            Guarded::Timeout => {
                out.push(CaseOut::skip(cname, "watchdog without stuck predicate (inconclusive)", desc));
                continue;
            }
        };
        // success reported: the corresponding reader, given what the container carries, must return the data.
        // Parameters for headerless containers are the caller's (possibly out-of-range) options, as a container would store them.
        let spec = cell.spec.clone();
        let b2 = bytes.clone();
        let dlen = data.len();
        let dec = catch(move || decode_bytes(&spec, &b2, dlen as u64, &[65536], dlen + (1 << 20)));
        match dec {
            Err(p) => out.push(CaseOut::viol(cname, format!("{}/{fieldclass}/reader-panic@{}{dbg}", cell.writer, p.site()), p.short_msg(), desc)),
            Ok(d) => {
                if !d.is_ok() {
                    let e: String = d.err_string().chars().filter(|c| !c.is_ascii_digit()).collect();
                    out.push(CaseOut::viol(
                        cname,
                        format!("{}/{fieldclass}/undecodable:{e}", cell.writer),
                        format!("finish() returned Ok ({} bytes) but the own reader fails after {} of {} bytes", bytes.len(), d.out.len(), data.len()),
                        desc,
                    ));
                } else if d.out != data {
                    out.push(CaseOut::viol(cname, format!("{}/{fieldclass}/silently-wrong-data", cell.writer), first_diff(&d.out, &data), desc));
                } else {
                    stat_add("accepted_and_decodable", 1);
                    out.push(CaseOut::held(cname, true, format!("{desc}: accepted, {} bytes, decodes", bytes.len())));
                }
            }
        }
    }
    out
}

pub fn describe(ctx: &Ctx, idx: u64) -> (String, String, String, String) {
    let _ = ctx;
    let g = grid();
    let cell = &g[idx as usize % g.len()];
    let fieldclass = cell.field.split(" [").next().unwrap_or(&cell.field).to_string();
    (
        format!("{}/{fieldclass}", cell.writer),
        String::new(),
        format!("{}|{}", cell.writer, cell.field),
        format!("{} with {}: {}", cell.writer, cell.field, cell.spec.desc()),
    )
}
