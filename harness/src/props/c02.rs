//! C02 - XZ and LZIP containers round-trip every input under every option.

use lzma_rust2::{EncodeMode, LZMAOptions, MFType};

use crate::case::{catch, CaseOut, Ctx};
use crate::gen::{self, Family};
use crate::ours::{decode_from, encode, Container, Spec};
use crate::util::{first_diff, Rng};
use crate::walk;

pub const STEER: u64 = 20;

pub fn n_cases(ctx: &Ctx) -> u64 {
    let base = match (ctx.variant.as_str(), ctx.thorough()) {
        ("dbg", false) => 500,
        ("dbg", true) => 5000,
        (_, false) => 12000,
        (_, true) => 60000,
    };
    STEER + ctx.scaled(base)
}

pub const BCJ_IDS: [(u8, u32, &str); 8] = [
    (0x04, 1, "x86"),
    (0x05, 4, "ppc"),
    (0x06, 16, "ia64"),
    (0x07, 4, "arm"),
    (0x08, 2, "armthumb"),
    (0x09, 4, "sparc"),
    (0x0A, 4, "arm64"),
    (0x0B, 2, "riscv"),
];

pub fn gen_filters(r: &mut Rng) -> Vec<(u8, u32)> {
    let n = match r.below(10) {
        0..=4 => 0,
        5..=7 => 1,
        8 => 2,
        _ => 3,
    };
    let mut v = Vec::new();
    for _ in 0..n {
        if r.chance(1, 3) {
            let d = match r.below(4) {
                0 => 1,
                1 => 256,
                2 => *r.pick(&[2u32, 3, 4, 8, 16, 255]),
                _ => r.range(1, 256) as u32,
            };
            v.push((0x03u8, d));
        } else {
            let (id, align, _) = *r.pick(&BCJ_IDS);
            let off = match r.below(4) {
                0 | 1 => 0,
                2 => align * r.range(1, 1000) as u32,
                _ => (r.next_u32() / align) * align,
            };
            v.push((id, off));
        }
    }
    v
}

pub fn filters_desc(f: &[(u8, u32)]) -> String {
    let parts: Vec<String> = f
        .iter()
        .map(|(id, p)| {
            if *id == 3 {
                format!("delta({p})")
            } else {
                let n = BCJ_IDS.iter().find(|b| b.0 == *id).map(|b| b.2).unwrap_or("?");
                format!("{n}@{p:#x}")
            }
        })
        .collect();
    format!("[{}]", parts.join(","))
}

/// Trigger of the known BCJWriter limitation (a BCJ filter that is fed by more than one write call
/// filters every call on its own): the caller writes more than once, or - with a single write by the
/// caller - a BCJ filter sits behind another BCJ filter, because `BCJWriter::write` forwards its
/// output in two pieces (the converted part, then the unconverted tail).
pub fn bcj_multi_write_exposed(f: &[(u8, u32)], caller_writes: usize) -> bool {
    let has_bcj = f.iter().any(|x| x.0 != 3);
    let bcj_behind_bcj = f.windows(2).any(|w| w[0].0 != 3 && w[1].0 != 3);
    has_bcj && (caller_writes > 1 || bcj_behind_bcj)
}

pub fn chain_shape(f: &[(u8, u32)]) -> String {
    if f.is_empty() {
        return "nofilter".into();
    }
    let parts: Vec<&str> = f.iter().map(|(id, _)| if *id == 3 { "delta" } else { "bcj" }).collect();
    parts.join("+")
}

pub struct Case {
    pub spec: Spec,
    pub fam: Family,
    pub len: usize,
    pub data_seed: u64,
    pub write_size: usize,
    pub single: bool,
}

fn steer_case(i: u64) -> Case {
    use EncodeMode::*;
    use MFType::*;
    let o = |dict: u32| LZMAOptions::new(dict, 3, 0, 2, Fast, 32, HC4, 0);
    let on = |dict: u32| LZMAOptions::new(dict, 3, 0, 2, Normal, 64, BT4, 0);
    let (c, opts, fam, len, ws) = match i {
        0 => (Container::Xz { check: 4, block: None, filters: vec![] }, o(1 << 20), Family::Text, 200_000, 0),
        1 => (Container::Xz { check: 1, block: Some(65536), filters: vec![] }, o(65536), Family::Exe, 400_000, 10_000),
        2 => (Container::Xz { check: 10, block: Some(100_000), filters: vec![(0x04, 0)] }, on(65536), Family::Exe, 300_000, 0),
        3 => (Container::Xz { check: 0, block: None, filters: vec![(0x03, 4)] }, o(1 << 16), Family::Periodic, 100_000, 0),
        4 => (Container::Xz { check: 4, block: None, filters: vec![] }, o(4096), Family::Empty, 0, 0),
        5 => (Container::Xz { check: 4, block: Some(4096), filters: vec![(0x03, 1), (0x07, 0), (0x0A, 4096)] }, o(4096), Family::Exe, 50_000, 4096),
        6 => (Container::Lzip { member: None }, o(1 << 20), Family::Text, 200_000, 0),
        7 => (Container::Lzip { member: Some(65536) }, o(65536), Family::Exe, 400_000, 10_000),
        8 => (Container::Lzip { member: None }, o(4096), Family::Empty, 0, 0),
        9 => (Container::Lzip { member: None }, on(5000), Family::FarCopy, 60_000, 0),
        10 => (Container::Lzip { member: Some(10_000) }, on(6144), Family::Random, 100_000, 777),
        11 => (Container::Lzip { member: None }, o(3 << 19), Family::FarCopy, 3_000_000, 0),
        12 => (Container::Xz { check: 1, block: None, filters: vec![] }, o(3 << 19), Family::FarCopy, 3_000_000, 0),
        13 => (Container::Xz { check: 1, block: Some(1), filters: vec![] }, o(5000), Family::Sandwich, 200_000, 3000),
        14 => (Container::Lzip { member: Some(1) }, o((1 << 16) + 1), Family::Sandwich, 300_000, 0),
        // blocks / members with more than 2 MiB of extremely compressible data: LZMA2 chunks that
        // close on their uncompressed size limit (2 MiB) instead of on their compressed size
        15 => (Container::Xz { check: 4, block: None, filters: vec![] }, o(1 << 16), Family::Constant, 5_000_000, 0),
        16 => (Container::Xz { check: 1, block: Some(4 << 20), filters: vec![] }, on(1 << 16), Family::Periodic, 9_000_000, 1 << 20),
        17 => (Container::Lzip { member: None }, o(1 << 16), Family::Constant, 5_000_000, 0),
        18 => (Container::Xz { check: 0, block: None, filters: vec![(0x03, 1)] }, o(4096), Family::Constant, 3_000_000, 65536),
        _ => (Container::Xz { check: 4, block: None, filters: vec![] }, o(4096), Family::OneByte, 1, 0),
    };
    Case {
        spec: Spec { c, o: opts },
        fam,
        len,
        data_seed: 2000 + i,
        write_size: ws,
        single: ws == 0,
    }
}

pub const LZIP_DICTS: [u32; 14] = [
    4096,
    4097,
    5000,
    6144,
    8191,
    8192,
    8193,
    65535,
    65536,
    65537,
    (1 << 20) - 1,
    1 << 20,
    (1 << 20) + 1,
    3 << 19,
];

fn random_case(r: &mut Rng, ctx: &Ctx) -> Case {
    let xz = r.chance(1, 2);
    let mut o = gen::gen_lzma_opts(r, true, false);
    if r.chance(1, 2) {
        o.dict_size = *r.pick(&LZIP_DICTS);
    } else if r.chance(1, 3) {
        o.dict_size = r.log_range(4096, if ctx.thorough() { 16 << 20 } else { 4 << 20 }) as u32;
    }
    let size_opt = |r: &mut Rng, dict: u32| -> Option<u64> {
        match r.below(6) {
            0 | 1 => None,
            2 => Some(dict as u64),
            3 => Some(1),
            4 => Some(r.log_range(1, 1 << 20)),
            _ => Some(1 << 40),
        }
    };
    let c = if xz {
        Container::Xz {
            check: *r.pick(&[0u8, 1, 4, 10]),
            block: size_opt(r, o.dict_size),
            filters: gen_filters(r),
        }
    } else {
        Container::Lzip {
            member: size_opt(r, o.dict_size),
        }
    };
    let fam = if r.chance(1, 10) {
        *r.pick(&[Family::Empty, Family::OneByte])
    } else {
        *r.pick(&gen::BULK_FAMILIES)
    };
    let max = if ctx.thorough() { 4 << 20 } else { 1 << 20 };
    let len = gen::gen_len(r, max, o.dict_size);
    let single = r.chance(1, 2);
    Case {
        spec: Spec { c, o },
        fam,
        len,
        data_seed: r.next_u64(),
        write_size: 0,
        single,
    }
}

pub fn make_case(ctx: &Ctx, idx: u64) -> Case {
    if idx < STEER {
        steer_case(idx)
    } else {
        let mut r = ctx.rng(idx);
        random_case(&mut r, ctx)
    }
}

/// Structural checks on our own XZ output, independent of our reader. Returns (class, detail).
pub fn xz_structure(bytes: &[u8], data: &[u8], check: u8) -> Result<usize, (String, String)> {
    let s = walk::walk_xz_stream(bytes, 0).map_err(|e| ("xz-walk".to_string(), e))?;
    if s.end != bytes.len() {
        return Err(("xz-trailing".into(), format!("stream ends at {} of {}", s.end, bytes.len())));
    }
    if s.check_type != check {
        return Err(("xz-check-type".into(), format!("{} vs {}", s.check_type, check)));
    }
    // blocks partition the input in order
    let mut off = 0usize;
    for (i, b) in s.blocks.iter().enumerate() {
        let n = b.lzma2.total_uncompressed();
        if off + n > data.len() {
            return Err(("xz-block-sizes".into(), format!("block {i} runs past the input")));
        }
        let slice = &data[off..off + n];
        let field = &bytes[b.check_off..b.check_off + b.check_len];
        let ok = match check {
            0 => true,
            1 => field == walk::crc32(slice).to_le_bytes(),
            4 => field == walk::crc64(slice).to_le_bytes(),
            _ => field == walk::sha256(slice),
        };
        if !ok {
            return Err((
                "xz-block-check".into(),
                format!("block {i}: check field does not match input[{off}..{}]", off + n),
            ));
        }
        off += n;
    }
    if off != data.len() {
        return Err(("xz-block-sizes".into(), format!("blocks cover {off} of {} bytes", data.len())));
    }
    Ok(s.blocks.len())
}

pub fn lzip_structure(bytes: &[u8], data: &[u8], dict_searched: u32) -> Result<usize, (String, String)> {
    let ms = walk::walk_lzip(bytes).map_err(|e| ("lzip-walk".to_string(), e))?;
    let mut off = 0usize;
    for (i, m) in ms.iter().enumerate() {
        let n = m.data_size as usize;
        if off + n > data.len() {
            return Err(("lzip-member-sizes".into(), format!("member {i} runs past the input")));
        }
        if walk::crc32(&data[off..off + n]) != m.crc {
            return Err(("lzip-member-crc".into(), format!("member {i}: crc does not match input[{off}..{}]", off + n)));
        }
        match walk::lzip_dict_size(m.dict_byte) {
            None => return Err(("lzip-dict-byte".into(), format!("member {i}: invalid dict byte {:#x}", m.dict_byte))),
            Some(d) => {
                // the decoder must get at least the dictionary the encoder searched, unless the
                // member is shorter than that anyway
                if d < dict_searched && (d as usize) < n {
                    return Err((
                        "lzip-dict-too-small".into(),
                        format!("member {i}: header says {d}, encoder searched {dict_searched}, member holds {n} bytes"),
                    ));
                }
            }
        }
        off += n;
    }
    if off != data.len() {
        return Err(("lzip-member-sizes".into(), format!("members cover {off} of {} bytes", data.len())));
    }
    Ok(ms.len())
}

pub fn run_case(ctx: &Ctx, idx: u64) -> Vec<CaseOut> {
    crate::mt::watched(ctx, idx, "xz-lzip-round-trip", run_case_inner)
}

fn run_case_inner(ctx: &Ctx, idx: u64) -> Vec<CaseOut> {
    let case = make_case(ctx, idx);
    let mut dr = Rng::new(case.data_seed);
    let data = gen::gen_data(&mut dr, case.fam, case.len);
    let partition = if case.write_size > 0 {
        vec![case.write_size; data.len() / case.write_size + 1]
    } else if case.single {
        vec![data.len()]
    } else {
        gen::gen_partition(&mut dr, data.len())
    };
    let flush_every = if !case.single && dr.chance(1, 4) { 1 + dr.usize_below(5) } else { 0 };
    let sizes: Vec<usize> = gen::gen_read_sizes(&mut dr).into_iter().filter(|&s| s > 0).collect();
    let o = &case.spec.o;
    let (fmt, shape, chk, sizeclass) = match &case.spec.c {
        Container::Xz { check, block, filters } => (
            "xz",
            chain_shape(filters),
            format!("check{check}"),
            match block {
                None => "unset",
                Some(b) if *b <= o.dict_size as u64 => "le-dict",
                Some(b) if (*b as usize) < data.len() => "lt-input",
                _ => "ge-input",
            },
        ),
        Container::Lzip { member } => (
            "lzip",
            "nofilter".to_string(),
            "crc32".to_string(),
            match member {
                None => "unset",
                Some(b) if *b <= o.dict_size as u64 => "le-dict",
                Some(b) if (*b as usize) < data.len() => "lt-input",
                _ => "ge-input",
            },
        ),
        _ => ("?", String::new(), String::new(), "?"),
    };
    let dict_repr = if o.dict_size.is_power_of_two() || (o.dict_size % 3 == 0 && (o.dict_size / 3).is_power_of_two()) {
        "repr"
    } else {
        "nonrepr"
    };
    let cell = format!(
        "{fmt}|{chk}|size-{sizeclass}|{shape}|dict-{dict_repr}|{}|{}|{}",
        case.fam.name(),
        gen::len_class(data.len()),
        if partition.len() > 1 { "multiwrite" } else { "onewrite" }
    );
    let desc = format!(
        "{} fam={} len={} writes={} flush_every={} readbuf={:?}",
        match &case.spec.c {
            Container::Xz { check, block, filters } => format!(
                "Xz check={check} block={block:?} filters={} {}",
                filters_desc(filters),
                gen::opts_desc(o)
            ),
            _ => case.spec.desc(),
        },
        case.fam.name(),
        data.len(),
        partition.len(),
        flush_every,
        &sizes[..sizes.len().min(4)]
    );
    let dbg = if ctx.is("dbg") { " [dbg]" } else { "" };
    // trigger tag of the known BCJWriter limitation (a BCJ filter fed by more than one write call)
    let nonempty_writes = {
        let mut left = data.len();
        let mut n = 0;
        for &w in &partition {
            let w = w.min(left);
            if w > 0 {
                n += 1;
                left -= w;
            }
        }
        n + (left > 0) as usize
    };
    let exposed = matches!(&case.spec.c, Container::Xz { filters, .. } if bcj_multi_write_exposed(filters, nonempty_writes));
    let fmt = if exposed {
        "xz[bcj-filter+multi-write]"
    } else {
        fmt
    };

    let enc = catch(|| encode(&case.spec, &data, &partition, flush_every));
    let bytes = match enc {
        Err(p) => return vec![CaseOut::viol(cell, format!("enc-panic {fmt} @{}{dbg}", p.site()), p.short_msg(), desc)],
        Ok(Err(e)) => {
            return vec![CaseOut::viol(
                cell,
                format!("enc-err {fmt} {:?}:{}", e.kind(), e),
                "writer returned an error for in-range options on an infallible sink",
                desc,
            )]
        }
        Ok(Ok(b)) => b,
    };
    let units = match &case.spec.c {
        Container::Xz { check, .. } => xz_structure(&bytes, &data, *check),
        _ => lzip_structure(&bytes, &data, o.dict_size.clamp(4096, 512 << 20)),
    };
    let units = match units {
        Ok(u) => u,
        Err((class, detail)) => return vec![CaseOut::viol(cell, format!("structure {fmt} {class}"), detail, desc)],
    };
    let dec = catch(|| decode_from(&case.spec, bytes.as_slice(), data.len() as u64, &sizes, data.len() + (4 << 20)));
    let d = match dec {
        Err(p) => return vec![CaseOut::viol(cell, format!("dec-panic {fmt} @{}{dbg}", p.site()), p.short_msg(), desc)],
        Ok(d) => d,
    };
    if !d.drain.is_ok() {
        return vec![CaseOut::viol(
            cell,
            format!("dec-err {fmt} {}", d.drain.err_string()),
            format!("own reader rejected own file after {} bytes", d.drain.out.len()),
            desc,
        )];
    }
    if d.drain.out != data {
        return vec![CaseOut::viol(cell, format!("mismatch {fmt}"), first_diff(&d.drain.out, &data), desc)];
    }
    let _ = units;
    vec![CaseOut::held(cell, !data.is_empty(), desc)]
}
