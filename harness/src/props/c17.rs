//! C17 - memory estimators are sound and memory limits are enforced.

use std::io::{self, Read, Write};

use lzma_rust2::{
    lzma2_get_memory_usage, lzma_get_memory_usage, lzma_get_memory_usage_by_props, EncodeMode, LZMA2Options, LZMA2Reader,
    LZMA2Writer, LZMAOptions, LZMAReader, LZMAWriter, MFType,
};

use crate::alloc;
use crate::case::{catch, stat_add, stat_max, CaseOut, Ctx};
use crate::gen::{self, Family};
use crate::util::Rng;

pub fn n_cases(ctx: &Ctx) -> u64 {
    let base = if ctx.thorough() { 6000 } else { 700 };
    40 + ctx.scaled(base)
}

/// Sink that only counts.
struct Null(u64);
impl Write for Null {
    fn write(&mut self, b: &[u8]) -> io::Result<usize> {
        self.0 += b.len() as u64;
        Ok(b.len())
    }
    fn flush(&mut self) -> io::Result<()> {
        Ok(())
    }
}

pub const DICT_GRID: [u32; 16] = [
    4096,
    6000,
    8192,
    65536,
    1 << 18,
    (1 << 18) + 1,
    1 << 20,
    3 << 19,
    1 << 22,
    1 << 23,
    1 << 24,
    1 << 25,
    1 << 26,
    1 << 27,
    1 << 28,
    3 << 28,
];

fn encoder_case(ctx: &Ctx, idx: u64, r: &mut Rng) -> Vec<CaseOut> {
    let mut o = if idx < 10 {
        LZMAOptions::with_preset(idx as u32)
    } else {
        let mut o = gen::gen_lzma_opts(r, false, false);
        let maxi = if ctx.thorough() { DICT_GRID.len() } else { 12 };
        o.dict_size = DICT_GRID[r.usize_below(maxi)];
        o
    };
    // big dictionaries: keep the quick tier below ~1 GiB of reservations per case
    if !ctx.thorough() && o.dict_size > (1 << 26) {
        o.dict_size = 1 << 26;
    }
    let lzma2 = if o.lc + o.lp > 4 { false } else { r.chance(1, 2) };
    let mut len = r.log_range(1, 300_000) as usize;
    // LZMA2 with independent chunks: every max(chunk_size, dict_size) bytes a fresh encoder is started;
    // a small dictionary and several times as much input, so that it really happens
    let chunk: Option<u64> = if lzma2 && idx >= 10 && r.chance(1, 2) {
        o.dict_size = *r.pick(&[4096u32, 65536, 1 << 18]);
        len = o.dict_size as usize * (2 + r.usize_below(3)) + r.usize_below(5000);
        Some(*r.pick(&[1u64, o.dict_size as u64, o.dict_size as u64 + 1000]))
    } else {
        None
    };
    // any writer: enough input for the encoder window to slide a few times (the window holds about
    // 1.5 x dict + 256 KiB), the peak has to stay below the estimate while the writer runs
    if chunk.is_none() && idx >= 10 && r.chance(1, 3) {
        o.dict_size = *r.pick(&[4096u32, 65536, 1 << 18, 1 << 20]);
        len = 2 * o.dict_size as usize + (512 << 10) + r.usize_below(100_000);
    }
    let estimate_kib = match catch(|| o.get_memory_usage()) {
        Ok(e) => e,
        Err(p) => {
            return vec![CaseOut::viol(
                "encoder-estimator|panic",
                format!("estimator-panic LZMAOptions::get_memory_usage @{}", p.site()),
                p.short_msg(),
                gen::opts_desc(&o),
            )]
        }
    };
    let fam = *r.pick(&[Family::Text, Family::Random, Family::Exe]);
    let data = gen::gen_data(r, fam, len);
    let wname = if !lzma2 {
        "LZMAWriter"
    } else if chunk.is_some() {
        "LZMA2Writer[chunk_size]"
    } else {
        "LZMA2Writer"
    };
    let cell = format!(
        "encoder|{wname}|{}|{}|{}|lclp{}",
        gen::mode_name(o.mode),
        gen::mf_name(o.mf),
        gen::dict_class(o.dict_size),
        if o.lc + o.lp > 4 { ">4" } else { "<=4" }
    );
    let desc = format!("{wname} {} chunk_size={chunk:?} data={len}B estimate={estimate_kib} KiB", gen::opts_desc(&o));
    crate::mt::wait_quiet();
    let base = alloc::window_begin();
    let res = catch(|| -> io::Result<()> {
        if lzma2 {
            let mut w = LZMA2Writer::new(Null(0), LZMA2Options { lzma_options: o.clone(), chunk_size: chunk.and_then(std::num::NonZeroU64::new) });
            w.write_all(&data)?;
            w.finish()?;
        } else {
            let mut w = LZMAWriter::new_use_header(Null(0), &o, None)?;
            w.write_all(&data)?;
            w.finish()?;
        }
        Ok(())
    });
    let (peak, largest) = alloc::window_peak(base);
    stat_add("encoder_measurements", 1);
    stat_max("largest_peak_bytes", peak);
    match res {
        Err(p) => return vec![CaseOut::skip(cell, format!("writer panicked at {} (judged by C01)", p.site()), desc)],
        Ok(Err(e)) => return vec![CaseOut::skip(cell, format!("writer failed: {e}"), desc)],
        Ok(Ok(())) => {}
    }
    let est = estimate_kib as u64 * 1024;
    let detail = format!("estimate {est} B ({estimate_kib} KiB), measured peak {peak} B (largest block {largest} B), ratio {:.2}", est as f64 / peak.max(1) as f64);
    if peak > est {
        return vec![CaseOut::viol(cell, format!("estimate-unsound {wname} (peak above estimate)"), detail, desc)];
    }
    if est > 4 * peak + (1 << 20) {
        return vec![CaseOut::viol(cell, format!("estimate-useless {wname} (more than 4x peak + 1 MiB)"), detail, desc)];
    }
    vec![CaseOut::held(cell, true, format!("{desc}: {detail}"))]
}

fn decoder_case(ctx: &Ctx, r: &mut Rng) -> Vec<CaseOut> {
    let maxi = if ctx.thorough() { DICT_GRID.len() } else { 13 };
    let dict = DICT_GRID[r.usize_below(maxi)];
    let lzma2 = r.chance(1, 2);
    let (lc, lp, pb) = loop {
        let lc = r.below(9) as u32;
        let lp = r.below(5) as u32;
        if !lzma2 || lc + lp <= 4 {
            break (lc, lp, r.below(5) as u32);
        }
    };
    let o = LZMAOptions::new(dict.min(1 << 20), lc, lp, pb, EncodeMode::Fast, 32, MFType::HC4, 0);
    // data larger than a small dictionary, so the window is really used
    let len = r.log_range(1000, 200_000) as usize;
    let data = gen::gen_data(r, Family::Text, len);
    let rname = if lzma2 { "LZMA2Reader" } else { "LZMAReader" };
    let cell = format!("decoder|{rname}|{}|lc{lc}lp{lp}", gen::dict_class(dict));
    // build the stream with a small encoder dictionary, decode with the declared one
    let stream: Vec<u8> = {
        let mut s = Vec::new();
        let ok = if lzma2 {
            let mut w = LZMA2Writer::new(&mut s, LZMA2Options { lzma_options: o.clone(), chunk_size: None });
            w.write_all(&data).and_then(|_| w.finish().map(|_| ())).is_ok()
        } else {
            match LZMAWriter::new_no_header(&mut s, &o, true) {
                Ok(mut w) => w.write_all(&data).and_then(|_| w.finish().map(|_| ())).is_ok(),
                Err(_) => false,
            }
        };
        if !ok {
            return vec![CaseOut::skip(cell, "stream maker failed", "")];
        }
        s
    };
    let est_kib = if lzma2 {
        lzma2_get_memory_usage(dict)
    } else {
        match lzma_get_memory_usage(dict, lc, lp) {
            Ok(e) => e,
            Err(e) => return vec![CaseOut::viol(cell, format!("estimator-err lzma_get_memory_usage {e}"), "in-range arguments", format!("dict={dict} lc={lc} lp={lp}"))],
        }
    };
    if !lzma2 {
        // the props variant must agree
        let props = ((pb * 5 + lp) * 9 + lc) as u8;
        match lzma_get_memory_usage_by_props(dict, props) {
            Ok(e2) if e2 == est_kib => {}
            other => return vec![CaseOut::viol(cell, "estimator-disagree lzma_get_memory_usage_by_props", format!("{other:?} vs {est_kib}"), format!("dict={dict} props={props}"))],
        }
    }
    let desc = format!("{rname} dict={dict} lc={lc} lp={lp} pb={pb} stream={}B data={len}B estimate={est_kib} KiB", stream.len());
    let mut buf = vec![0u8; 8192];
    crate::mt::wait_quiet();
    let base = alloc::window_begin();
    let res = catch(|| -> io::Result<u64> {
        let mut n = 0u64;
        if lzma2 {
            let mut rd = LZMA2Reader::new(stream.as_slice(), dict, None);
            loop {
                let k = rd.read(&mut buf)?;
                if k == 0 {
                    break;
                }
                n += k as u64;
            }
        } else {
            let mut rd = LZMAReader::new(stream.as_slice(), u64::MAX, lc, lp, pb, dict, None)?;
            loop {
                let k = rd.read(&mut buf)?;
                if k == 0 {
                    break;
                }
                n += k as u64;
            }
        }
        Ok(n)
    });
    let (peak, largest) = alloc::window_peak(base);
    stat_add("decoder_measurements", 1);
    match res {
        Err(p) => return vec![CaseOut::skip(cell, format!("reader panicked at {} (judged by C01/C06)", p.site()), desc)],
        Ok(Err(e)) => return vec![CaseOut::skip(cell, format!("reader failed: {e} (judged by C01)"), desc)],
        Ok(Ok(_)) => {}
    }
    let est = est_kib as u64 * 1024;
    let detail = format!("estimate {est} B, measured peak {peak} B (largest block {largest} B), ratio {:.2}", est as f64 / peak.max(1) as f64);
    if peak > est {
        return vec![CaseOut::viol(cell, format!("estimate-unsound {rname} (peak above estimate)"), detail, desc)];
    }
    if est > 4 * peak + (1 << 20) {
        return vec![CaseOut::viol(cell, format!("estimate-useless {rname} (more than 4x peak + 1 MiB)"), detail, desc)];
    }
    vec![CaseOut::held(cell, true, format!("{desc}: {detail}"))]
}

fn limit_case(r: &mut Rng) -> Vec<CaseOut> {
    // .lzma headers x limits {0, need-1, need, need+1, MAX}
    let dict = *r.pick(&[0u32, 4096, 65536, 1 << 20, 1 << 26, 1 << 30, 0xFFFF_FFF0]);
    let (lc, lp, pb) = (r.below(9) as u32, r.below(5) as u32, r.below(5) as u32);
    let props = ((pb * 5 + lp) * 9 + lc) as u8;
    let need = match lzma_get_memory_usage_by_props(dict, props) {
        Ok(n) => n,
        Err(e) => return vec![CaseOut::viol("limit|estimator", format!("estimator-err lzma_get_memory_usage_by_props {e}"), "in-range arguments", format!("dict={dict} props={props}"))],
    };
    let which = r.below(5);
    let limit = match which {
        0 => 0,
        1 => need.saturating_sub(1),
        2 => need,
        3 => need.saturating_add(1),
        _ => u32::MAX,
    };
    // declared uncompressed size: unknown, small, and values whose low 32 bits are tiny
    let declared: u64 = *r.pick(&[u64::MAX, u64::MAX, 0, 100, 1 << 20, 1 << 32, (1 << 32) + 16, (1 << 33) + 4096, 1 << 40, (1 << 63) - 1]);
    let mut hdr = vec![props];
    hdr.extend_from_slice(&dict.to_le_bytes());
    hdr.extend_from_slice(&declared.to_le_bytes());
    hdr.extend_from_slice(&[0, 0, 0, 0, 0, 0x83, 0xFF, 0xFB, 0xFF, 0xFF, 0xC0, 0, 0, 0]);
    let cell = format!("limit|{}|{}", ["0", "need-1", "need", "need+1", "max"][which as usize], gen::dict_class(dict.max(4096)));
    let desc = format!(".lzma header props={props} dict={dict:#x} declared_size={declared:#x} need={need} KiB limit={limit} KiB");
    // very large dictionaries with a permissive limit would really be allocated: only probe the refusing side there
    if dict > (1 << 28) && limit >= need && declared > (1 << 28) {
        return vec![CaseOut::skip(cell, "would allocate more than 256 MiB", desc)];
    }
    let base = alloc::window_begin();
    let res = catch(|| LZMAReader::new_mem_limit(hdr.as_slice(), limit, None).map(|_| ()));
    let (peak, _) = alloc::window_peak(base);
    stat_add("limit_probes", 1);
    match res {
        Err(p) => vec![CaseOut::viol(cell, format!("panic LZMAReader::new_mem_limit @{}", p.site()), p.short_msg(), desc)],
        Ok(Ok(())) => {
            // a reader was created: it must really have stayed inside the limit. (With a known small
            // size an implementation may charge the smaller dictionary it will really allocate, so
            // Ok with limit < need(header dictionary) is judged by what was allocated.)
            if peak > limit as u64 * 1024 + 64 * 1024 {
                vec![CaseOut::viol(
                    cell,
                    "limit-exceeded LZMAReader::new_mem_limit",
                    format!("reader created with limit {limit} KiB but {peak} bytes were allocated (need by header: {need} KiB)"),
                    desc,
                )]
            } else if limit < need && declared > (1 << 31) {
                vec![CaseOut::viol(cell, "limit-not-enforced LZMAReader::new_mem_limit", format!("reader created although limit {limit} < need {need}"), desc)]
            } else {
                vec![CaseOut::held(cell, true, desc)]
            }
        }
        Ok(Err(e)) => {
            if limit < need {
                if e.kind() != io::ErrorKind::OutOfMemory {
                    vec![CaseOut::viol(cell, format!("limit-wrong-error LZMAReader::new_mem_limit {:?}", e.kind()), e.to_string(), desc)]
                } else if peak > 64 * 1024 {
                    vec![CaseOut::viol(cell, "limit-after-allocation LZMAReader::new_mem_limit", format!("{peak} bytes were allocated before the limit was reported"), desc)]
                } else {
                    vec![CaseOut::held(cell, true, desc)]
                }
            } else {
                vec![CaseOut::viol(cell, format!("limit-too-strict LZMAReader::new_mem_limit {:?}:{e}", e.kind()), format!("limit {limit} >= need {need}"), desc)]
            }
        }
    }
}

pub fn run_case(ctx: &Ctx, idx: u64) -> Vec<CaseOut> {
    let mut r = ctx.rng(idx);
    if idx < 10 {
        return encoder_case(ctx, idx, &mut r);
    }
    match r.below(3) {
        0 => encoder_case(ctx, idx, &mut r),
        1 => decoder_case(ctx, &mut r),
        _ => limit_case(&mut r),
    }
}
