//! C16 - readers consume exactly the bytes of their stream.

use crate::case::{catch, stat_add, CaseOut, Ctx};
use crate::fio::{FaultyRead, ReadPlan};
use crate::gen::{self, Family};
use crate::ours::{decode_from, encode, Container, Spec};
#[allow(unused_imports)]
use crate::util::{first_diff, Rng};

pub const STEER: u64 = 8;

pub fn n_cases(ctx: &Ctx) -> u64 {
    let base = match (ctx.variant.as_str(), ctx.thorough()) {
        ("dbg", false) => 800,
        ("dbg", true) => 10_000,
        (_, false) => 8000,
        (_, true) => 150_000,
    };
    STEER + ctx.scaled(base)
}

pub fn run_case(ctx: &Ctx, idx: u64) -> Vec<CaseOut> {
    crate::mt::watched(ctx, idx, "reader-position", run_case_inner)
}

fn run_case_inner(ctx: &Ctx, idx: u64) -> Vec<CaseOut> {
    let mut r = ctx.rng(idx);
    let kind = if idx < STEER { idx } else { r.below(8) };
    let lzma1 = kind <= 3;
    let mut o = gen::gen_lzma_opts(&mut r, !lzma1, false);
    if r.chance(2, 3) {
        o.dict_size = *r.pick(&[4096u32, 8192, 65536]);
    }
    let c = match kind {
        0 => Container::LzmaHeaderMarker,
        1 => Container::LzmaHeaderSized,
        2 => Container::LzmaRawMarker,
        3 => Container::LzmaRawSized,
        4 => Container::Lzma2 { chunk: None },
        5 => Container::Lzma2 { chunk: Some(r.log_range(1, 100_000)) },
        _ => Container::Xz {
            check: *r.pick(&[0u8, 1, 4, 10]),
            block: if r.chance(1, 2) { None } else { Some(r.log_range(1, 50_000)) },
            filters: if r.chance(1, 3) { vec![(3u8, 1 + r.below(256) as u32)] } else { vec![] },
        },
    };
    // small sizes so that every symbol kind ends some stream
    let len = match r.below(4) {
        0 => r.usize_below(12),
        1 => r.log_range(1, 300) as usize,
        _ => r.log_range(1, 40_000) as usize,
    };
    let fam = if len == 0 { Family::Empty } else { *r.pick(&gen::BULK_FAMILIES) };
    let data = gen::gen_data(&mut r, fam, len);
    let spec = Spec { c: c.clone(), o };
    let part = vec![4096usize; data.len() / 4096 + 1];
    let use_ref = cfg!(feature = "ref") && kind >= 6 && r.chance(1, 3);
    let stream: Vec<u8> = if use_ref {
        #[cfg(feature = "ref")]
        {
            let ro = crate::refimpl::RefLzma { dict: Some(65536), ..crate::refimpl::RefLzma::preset(r.below(7) as u32) };
            let check = *r.pick(&[0u8, 1, 4, 10]);
            match crate::refimpl::encode_xz(&data, &[], &ro, check, &[data.len() / 2]) {
                Ok(b) => b,
                Err(_) => return vec![CaseOut::skip("xz|ref", "reference encoder failed", "")],
            }
        }
        #[cfg(not(feature = "ref"))]
        {
            Vec::new()
        }
    } else {
        match encode(&spec, &data, &part, 0) {
            Ok(b) => b,
            Err(e) => return vec![CaseOut::skip(format!("{}|enc", c.name()), format!("encode failed: {e} (judged by C01/C02)"), "")],
        }
    };
    let tkind = r.below(6);
    let trailing: Vec<u8> = match tkind {
        0 => vec![],
        1 => vec![0u8; 1 + r.usize_below(40)],
        2 => {
            let n = 1 + r.usize_below(200);
            r.bytes(n)
        }
        3 => stream.clone(),
        4 => vec![0xFFu8; 1 + r.usize_below(40)],
        _ => {
            // bytes that look like the start of more data of the same format
            let mut t = stream[..stream.len().min(13)].to_vec();
            t.extend(r.bytes(5));
            t
        }
    };
    let tname = ["none", "zeros", "random", "same-stream-again", "ones", "stream-prefix"][tkind as usize];
    let mut input = stream.clone();
    input.extend_from_slice(&trailing);
    // read sizes: make the last read boundary fall at every distance 0..8 from the end
    let back = r.usize_below(9);
    let first = data.len().saturating_sub(back).max(1);
    let sizes: Vec<usize> = match r.below(4) {
        0 => vec![first, 1, 1, 1, 1, 1, 1, 1, 1, 64],
        1 => vec![1],
        2 => vec![*r.pick(&[2usize, 7, 4096, 65536])],
        _ => gen::gen_read_sizes(&mut r).into_iter().filter(|&s| s > 0).collect(),
    };
    let one_byte = r.chance(1, 2);
    let plan = if one_byte { ReadPlan::one_byte() } else { ReadPlan::default() };
    let cname = if use_ref { "xz(liblzma-made)".to_string() } else { c.name().to_string() };
    let cell = format!("{cname}|trailing-{tname}|{}|{}", if one_byte { "1-byte-source" } else { "bulk-source" }, gen::len_class(data.len()));
    let desc = format!(
        "{} len={} stream={}B trailing={tname}({}B) readbuf={:?} one_byte_source={one_byte}",
        if use_ref { "Xz liblzma-made".to_string() } else { spec.desc() },
        data.len(),
        stream.len(),
        trailing.len(),
        &sizes[..sizes.len().min(4)]
    );
    stat_add("streams_with_trailing_bytes", (tkind != 0) as u64);
    let res = catch(|| {
        let src = FaultyRead::new(&input, plan.clone());
        decode_from(&spec, src, data.len() as u64, &sizes, data.len() + (1 << 20))
    });
    let d = match res {
        Err(p) => return vec![CaseOut::viol(cell, format!("dec-panic {cname} @{}", p.site()), p.short_msg(), desc)],
        Ok(d) => d,
    };
    if !d.drain.is_ok() {
        return vec![CaseOut::viol(
            cell,
            format!("trailing-bytes-break-stream {cname} [{tname}] {}", d.drain.err_string()),
            format!("after {} of {} bytes", d.drain.out.len(), data.len()),
            desc,
        )];
    }
    if d.drain.out != data {
        return vec![CaseOut::viol(cell, format!("trailing-bytes-change-data {cname} [{tname}]"), first_diff(&d.drain.out, &data), desc)];
    }
    if let Some(e) = d.after_eos {
        return vec![CaseOut::viol(cell, format!("read-after-end-of-stream {cname} [{tname}]"), e, desc)];
    }
    let Some(src) = d.inner else {
        return vec![CaseOut::skip(cell, "reader gives no access to its source", desc)];
    };
    if src.pos != stream.len() {
        let dir = if src.pos > stream.len() { "over-read" } else { "under-read" };
        return vec![CaseOut::viol(
            cell,
            format!("{dir} {cname}"),
            format!("source positioned at {} after end of stream, the stream ends at {} (largest single request {} bytes)", src.pos, stream.len(), src.max_request),
            desc,
        )];
    }
    vec![CaseOut::held(cell, tkind != 0, desc)]
}
