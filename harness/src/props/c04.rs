//! C04 - corrupted XZ/LZIP input is never returned as valid different data.

use std::io::Cursor;
use std::sync::mpsc;
use std::time::Duration;

use lzma_rust2::{EncodeMode, LZIPReader, LZIPReaderMT, LZMAOptions, MFType, XZReader};

use crate::case::{catch, CaseOut, Ctx};
use crate::fio::drain;
use crate::gen::{self, Family};
use crate::ours::{encode, Container, Spec};
use crate::util::{mix, short, Rng};
use crate::walk;

#[derive(Clone, Copy, Debug, PartialEq, Eq)]
pub enum Fmt {
    Xz,
    Lzip,
}

#[derive(Clone, Copy, Debug, PartialEq, Eq)]
pub enum Reader {
    XzSingle,
    XzMulti,
    Lzip,
    LzipMt,
}

impl Reader {
    pub fn name(self) -> &'static str {
        match self {
            Reader::XzSingle => "XZReader",
            Reader::XzMulti => "XZReader(multi)",
            Reader::Lzip => "LZIPReader",
            Reader::LzipMt => "LZIPReaderMT",
        }
    }
}

pub struct BaseFile {
    pub name: String,
    pub fmt: Fmt,
    pub bytes: Vec<u8>,
    pub orig: Vec<u8>,
    /// (start offset in file, cumulative output length before this member) for LZIP members
    pub members: Vec<(usize, usize)>,
    /// named fields: (name, offset, len, crc fix-up kind)
    pub fields: Vec<(String, usize, usize, Fix)>,
}

#[derive(Clone, Copy, Debug, PartialEq, Eq)]
pub enum Fix {
    None,
    /// CRC32 stored at `at` over bytes [from, to)
    Crc32 { from: usize, to: usize, at: usize },
}

pub enum Dec {
    Ok(Vec<u8>),
    Err(String),
    Panic(String),
    Hang,
}

pub fn with_timeout<T: Send + 'static>(ms: u64, f: impl FnOnce() -> T + Send + 'static) -> Option<T> {
    let (tx, rx) = mpsc::channel();
    std::thread::spawn(move || {
        let _ = tx.send(f());
    });
    rx.recv_timeout(Duration::from_millis(ms)).ok()
}

pub fn decode_with(reader: Reader, bytes: &[u8], cap: usize) -> Dec {
    let r = match reader {
        Reader::XzSingle | Reader::XzMulti => catch(|| {
            let mut rd = XZReader::new(bytes, reader == Reader::XzMulti);
            drain(&mut rd, &[4096], cap, 4)
        }),
        Reader::Lzip => catch(|| match LZIPReader::new(bytes) {
            Ok(mut rd) => drain(&mut rd, &[4096], cap, 4),
            Err(e) => crate::fio::Drain {
                out: vec![],
                end: Err(e),
                calls: 0,
                bound_hit: None,
            },
        }),
        Reader::LzipMt => {
            let owned = bytes.to_vec();
            let res = with_timeout(5000, move || {
                catch(|| match LZIPReaderMT::new(Cursor::new(owned), 2) {
                    Ok(mut rd) => drain(&mut rd, &[4096], cap, 4),
                    Err(e) => crate::fio::Drain {
                        out: vec![],
                        end: Err(e),
                        calls: 0,
                        bound_hit: None,
                    },
                })
            });
            match res {
                None => return Dec::Hang,
                Some(r) => r,
            }
        }
    };
    match r {
        Err(p) => Dec::Panic(format!("{} @{}", p.short_msg(), p.site())),
        Ok(d) => {
            if let Some(b) = d.bound_hit {
                return Dec::Err(format!("bound:{b}"));
            }
            match d.end {
                Ok(()) => Dec::Ok(d.out),
                Err(e) => Dec::Err(e.to_string()),
            }
        }
    }
}

fn small_opts(r: &mut Rng) -> LZMAOptions {
    let mode = if r.chance(1, 2) { EncodeMode::Fast } else { EncodeMode::Normal };
    let mf = if r.chance(1, 2) { MFType::HC4 } else { MFType::BT4 };
    LZMAOptions::new(4096, 3, 0, 2, mode, 32, mf, 0)
}

pub fn n_files(ctx: &Ctx) -> u64 {
    if ctx.thorough() {
        // cut by the wall budget of the thorough tier (a complete sweep of one file takes 1-2 s of one core)
        240
    } else {
        14
    }
}

/// Deterministic base file `f` of this run.
pub fn base_file(ctx: &Ctx, f: u64) -> BaseFile {
    let mut r = Rng::new(mix(ctx.seed, 0xC04_0000 + f));
    let fmt = if f % 2 == 0 { Fmt::Xz } else { Fmt::Lzip };
    let fam = *r.pick(&[Family::Text, Family::Exe, Family::EditRepeat, Family::Sandwich, Family::LowEntropy]);
    // 1-3 units of at most 4096 bytes
    let units = 1 + (f / 2) % 3;
    let len = if ctx.thorough() && f >= 12 {
        r.range(100, 12_000) as usize
    } else {
        (units as usize - 1) * 4096 + r.range(60, 1500) as usize
    };
    let orig = gen::gen_data(&mut r, fam, len);
    let o = small_opts(&mut r);
    match fmt {
        Fmt::Xz => {
            let check = [1u8, 4, 10][((f / 2) % 3) as usize];
            let filters = match (f / 6) % 4 {
                0 => vec![],
                1 => vec![(0x03u8, 1 + (f as u32 % 7))],
                2 => vec![(0x04u8, 0)],
                _ => vec![(0x03u8, 2), (0x07u8, 0)],
            };
            let spec = Spec {
                c: Container::Xz {
                    check,
                    block: Some(4096),
                    filters: filters.clone(),
                },
                o,
            };
            // one write per block: the writer only starts a new block between write calls
            let partition = vec![4096usize; orig.len() / 4096 + 1];
            // BCJ filter + several writes is the known BCJWriter defect: keep BCJ files single block
            let (orig, partition) = if filters.iter().any(|x| x.0 != 3) {
                let n = orig.len().min(3000);
                (orig[..n].to_vec(), vec![n])
            } else {
                (orig, partition)
            };
            let bytes = encode(&spec, &orig, &partition, 0).expect("base xz");
            let s = walk::walk_xz_stream(&bytes, 0).expect("walk base xz");
            let mut fields: Vec<(String, usize, usize, Fix)> = Vec::new();
            let hdr_fix = Fix::Crc32 { from: 6, to: 8, at: 8 };
            fields.push(("stream.magic".into(), 0, 6, Fix::None));
            fields.push(("stream.flags".into(), 6, 2, hdr_fix));
            fields.push(("stream.crc".into(), 8, 4, Fix::None));
            for (bi, b) in s.blocks.iter().enumerate() {
                let hfix = Fix::Crc32 {
                    from: b.header_off,
                    to: b.header_off + b.header_len - 4,
                    at: b.header_off + b.header_len - 4,
                };
                fields.push((format!("block{bi}.header_size"), b.header_off, 1, hfix));
                fields.push((format!("block{bi}.flags"), b.header_off + 1, 1, hfix));
                fields.push((format!("block{bi}.filters"), b.header_off + 2, b.header_len - 6, hfix));
                fields.push((format!("block{bi}.header_crc"), b.header_off + b.header_len - 4, 4, Fix::None));
                for (ci, c) in b.lzma2.chunks.iter().enumerate().take(3) {
                    fields.push((format!("block{bi}.chunk{ci}.header"), c.offset, c.header_len, Fix::None));
                    fields.push((format!("block{bi}.chunk{ci}.payload_head"), c.offset + c.header_len, c.payload.min(6), Fix::None));
                }
                fields.push((format!("block{bi}.lzma2_end"), b.data_off + b.data_len - 1, 1, Fix::None));
                if b.padding > 0 {
                    fields.push((format!("block{bi}.padding"), b.data_off + b.data_len, b.padding, Fix::None));
                }
                fields.push((format!("block{bi}.check"), b.check_off, b.check_len, Fix::None));
            }
            let ifix = Fix::Crc32 {
                from: s.index_off,
                to: s.index_off + s.index_len - 4,
                at: s.index_off + s.index_len - 4,
            };
            fields.push(("index.body".into(), s.index_off, s.index_len - 4, ifix));
            fields.push(("index.crc".into(), s.index_off + s.index_len - 4, 4, Fix::None));
            let ffix = Fix::Crc32 {
                from: s.footer_off + 4,
                to: s.footer_off + 10,
                at: s.footer_off,
            };
            fields.push(("footer.crc".into(), s.footer_off, 4, Fix::None));
            fields.push(("footer.backward_size".into(), s.footer_off + 4, 4, ffix));
            fields.push(("footer.flags".into(), s.footer_off + 8, 2, ffix));
            fields.push(("footer.magic".into(), s.footer_off + 10, 2, Fix::None));
            BaseFile {
                name: format!("xz#{f} check={check} blocks={} filters={filters:?} len={}", s.blocks.len(), orig.len()),
                fmt,
                bytes,
                orig,
                members: vec![],
                fields,
            }
        }
        Fmt::Lzip => {
            // members made separately and concatenated, some of them empty
            let mut bytes = Vec::new();
            let mut members = Vec::new();
            let mut out_len = 0usize;
            let mut fields: Vec<(String, usize, usize, Fix)> = Vec::new();
            let mut parts: Vec<&[u8]> = orig.chunks(4096).collect();
            if parts.is_empty() {
                parts.push(&[]);
            }
            let with_empty = (f / 6) % 2 == 1;
            let mut seq: Vec<&[u8]> = Vec::new();
            for (i, p) in parts.iter().enumerate() {
                seq.push(p);
                if with_empty && i == 0 {
                    seq.push(&[]);
                }
            }
            for (mi, part) in seq.iter().enumerate() {
                let spec = Spec {
                    c: Container::Lzip { member: None },
                    o: o.clone(),
                };
                let m = encode(&spec, part, &[part.len()], 0).expect("base lzip");
                let start = bytes.len();
                members.push((start, out_len));
                out_len += part.len();
                fields.push((format!("member{mi}.magic"), start, 4, Fix::None));
                fields.push((format!("member{mi}.version"), start + 4, 1, Fix::None));
                fields.push((format!("member{mi}.dict"), start + 5, 1, Fix::None));
                fields.push((format!("member{mi}.payload_head"), start + 6, (m.len() - 26).min(8), Fix::None));
                let t = start + m.len() - 20;
                fields.push((format!("member{mi}.payload_tail"), t - 6.min(m.len() - 26), 6.min(m.len() - 26), Fix::None));
                fields.push((format!("member{mi}.crc"), t, 4, Fix::None));
                fields.push((format!("member{mi}.data_size"), t + 4, 8, Fix::None));
                fields.push((format!("member{mi}.member_size"), t + 12, 8, Fix::None));
                bytes.extend_from_slice(&m);
            }
            BaseFile {
                name: format!("lzip#{f} members={} (empty member: {with_empty}) len={}", members.len(), orig.len()),
                fmt,
                bytes,
                orig,
                members,
                fields,
            }
        }
    }
}

pub const CLASSES: [&str; 6] = ["bitflip", "bytesub", "field", "region", "truncate+append", "unit-ops"];

pub fn n_cases(ctx: &Ctx) -> u64 {
    let garbage_batches = if ctx.thorough() { 1200 } else { 60 };
    n_files(ctx) * CLASSES.len() as u64 + ctx.scaled(garbage_batches)
}

struct Agg {
    held_err: u64,
    held_same: u64,
    held_tolerated: u64,
    skipped_panic: u64,
    skipped_hang: u64,
    err_msgs: std::collections::BTreeMap<String, u64>,
    viols: Vec<CaseOut>,
}

impl Agg {
    fn new() -> Self {
        Agg {
            held_err: 0,
            held_same: 0,
            held_tolerated: 0,
            skipped_panic: 0,
            skipped_hang: 0,
            err_msgs: Default::default(),
            viols: Vec::new(),
        }
    }
}

/// Judges one corrupted file. `delta`/`edit_pos`: length change and position of the edit.
fn judge(
    agg: &mut Agg,
    base: &BaseFile,
    reader: Reader,
    corrupted: &[u8],
    class: &str,
    what: &str,
    edit_pos: usize,
    delta: isize,
    cell: &str,
) {
    if corrupted == base.bytes.as_slice() {
        return;
    }
    let cap = base.orig.len() + (1 << 20);
    match decode_with(reader, corrupted, cap) {
        Dec::Err(m) => {
            agg.held_err += 1;
            *agg.err_msgs.entry(m).or_insert(0) += 1;
        }
        Dec::Panic(_) => agg.skipped_panic += 1,
        Dec::Hang => agg.skipped_hang += 1,
        Dec::Ok(out) => {
            if out == base.orig {
                agg.held_same += 1;
                return;
            }
            // LZIP trailing-garbage tolerance
            if base.fmt == Fmt::Lzip {
                for (j, (start, before)) in base.members.iter().enumerate() {
                    if j == 0 || out.len() != *before || out[..] != base.orig[..*before] {
                        continue;
                    }
                    // candidate offsets of member j in the corrupted file
                    let mut cands = vec![*start as isize];
                    if edit_pos <= *start {
                        cands.push(*start as isize + delta);
                    }
                    let magic_gone = cands.iter().any(|&c| {
                        c < 0 || (c as usize) + 4 > corrupted.len() || &corrupted[c as usize..c as usize + 4] != b"LZIP"
                    });
                    if magic_gone {
                        agg.held_tolerated += 1;
                        return;
                    }
                }
            }
            // A "corruption" that happens to produce another WELL-FORMED file (a complete member or
            // stream duplicated, removed or appended: members of a few dozen bytes make a 100-byte
            // region edit hit exactly one) is nothing a reader can detect - the result is a valid
            // file with that content. Ground truth: the reference implementation accepts the whole
            // file (every byte consumed, end of stream reached) and decodes the same bytes.
            #[cfg(feature = "ref")]
            {
                let multi = !matches!(reader, Reader::XzSingle);
                let r = match base.fmt {
                    Fmt::Xz => crate::refimpl::decode_xz(corrupted, multi, cap),
                    Fmt::Lzip => crate::refimpl::decode_lzip(corrupted, true, cap),
                };
                if let Ok(ro) = r {
                    if ro.ended && ro.total_in as usize == corrupted.len() && ro.out == out {
                        agg.held_tolerated += 1;
                        crate::case::stat_add("edits_that_gave_a_valid_file_by_the_reference", 1);
                        return;
                    }
                }
            }
            let relation = if out.is_empty() {
                "Ok(empty)".to_string()
            } else if out.len() < base.orig.len() && base.orig.starts_with(&out) {
                if base.fmt == Fmt::Lzip && base.members.iter().any(|m| m.1 == out.len()) {
                    "Ok(leading members only, next member magic intact)".to_string()
                } else {
                    "Ok(proper prefix)".to_string()
                }
            } else if out.len() > base.orig.len() && out.starts_with(&base.orig) {
                "Ok(original + extra bytes)".to_string()
            } else {
                "Ok(different bytes)".to_string()
            };
            let field = what.split(':').next().unwrap_or(what);
            let field: String = field.chars().filter(|c| !c.is_ascii_digit()).collect();
            let sig = if class == "field" {
                format!("{} accepts {class}({field}) as {relation}", reader.name())
            } else {
                format!("{} accepts {class} as {relation}", reader.name())
            };
            if agg.viols.len() < 50 {
                agg.viols.push(CaseOut::viol(
                    cell,
                    sig,
                    format!("returned {} bytes, original has {}", out.len(), base.orig.len()),
                    format!("{} ; corruption {class} {what}; file {}", base.name, short(corrupted)),
                ));
            } else if let Some(last) = agg.viols.last_mut() {
                last.count += 1;
            }
        }
    }
}

fn readers_for(fmt: Fmt, ctx: &Ctx) -> Vec<Reader> {
    let _ = ctx;
    match fmt {
        Fmt::Xz => vec![Reader::XzSingle, Reader::XzMulti],
        Fmt::Lzip => vec![Reader::Lzip, Reader::LzipMt],
    }
}

fn apply_fix(b: &mut [u8], fix: Fix) {
    if let Fix::Crc32 { from, to, at } = fix {
        if to <= b.len() && at + 4 <= b.len() && from <= to {
            let c = walk::crc32(&b[from..to]);
            b[at..at + 4].copy_from_slice(&c.to_le_bytes());
        }
    }
}

fn field_at(base: &BaseFile, pos: usize) -> &str {
    for (n, o, l, _) in &base.fields {
        if pos >= *o && pos < *o + *l {
            return n;
        }
    }
    "payload"
}

fn field_class(name: &str) -> String {
    // block0.chunk1.header -> block.chunk.header
    name.chars().filter(|c| !c.is_ascii_digit()).collect()
}

pub fn run_case(ctx: &Ctx, idx: u64) -> Vec<CaseOut> {
    let nf = n_files(ctx);
    let ncls = CLASSES.len() as u64;
    // The thorough tier is cut by a wall budget: visit the case list in a fixed scattered order
    // (multiplication by a prime that does not divide the length is a permutation), so that the
    // part that runs is a sample of all files, classes and garbage batches instead of a prefix.
    let idx = if ctx.thorough() {
        let total = n_cases(ctx);
        let p = if total % 7919 == 0 { 7907 } else { 7919 };
        (idx * p) % total
    } else {
        idx
    };
    if idx >= nf * ncls {
        return garbage_case(ctx, idx - nf * ncls);
    }
    let f = idx / ncls;
    let class = CLASSES[(idx % ncls) as usize];
    let base = base_file(ctx, f);
    let fmtname = if base.fmt == Fmt::Xz { "xz" } else { "lzip" };
    let mut out = Vec::new();
    let mut r = Rng::new(mix(ctx.seed, 0xC04_F000 + idx));
    // LZIPReaderMT: sample only (thread start per decode), other readers: everything
    for reader in readers_for(base.fmt, ctx) {
        let mut per_field: std::collections::BTreeMap<String, Agg> = Default::default();
        let stride = if reader == Reader::LzipMt { 23 } else { 1 };
        let n = base.bytes.len();
        let mut counter = 0usize;
        let sampled = |counter: &mut usize| -> bool {
            *counter += 1;
            *counter % stride == 0
        };
        match class {
            "bitflip" => {
                for pos in 0..n {
                    let fc = field_class(field_at(&base, pos));
                    for bit in 0..8 {
                        if !sampled(&mut counter) {
                            continue;
                        }
                        let mut c = base.bytes.clone();
                        c[pos] ^= 1 << bit;
                        let cell = format!("{fmtname}|{}|bitflip|{fc}", reader.name());
                        let agg = per_field.entry(fc.clone()).or_insert_with(Agg::new);
                        judge(agg, &base, reader, &c, class, &format!("{fc}: byte {pos} bit {bit}"), pos, 0, &cell);
                    }
                }
            }
            "bytesub" => {
                for pos in 0..n {
                    let fc = field_class(field_at(&base, pos));
                    let x = base.bytes[pos];
                    for v in [0x00u8, 0xFF, x.wrapping_add(1)] {
                        if v == x || !sampled(&mut counter) {
                            continue;
                        }
                        let mut c = base.bytes.clone();
                        c[pos] = v;
                        let cell = format!("{fmtname}|{}|bytesub|{fc}", reader.name());
                        let agg = per_field.entry(fc.clone()).or_insert_with(Agg::new);
                        judge(agg, &base, reader, &c, class, &format!("{fc}: byte {pos} := {v:#x}"), pos, 0, &cell);
                    }
                }
            }
            "field" => {
                for (name, off, len, fix) in &base.fields {
                    let fc = field_class(name);
                    for k in 0..*len {
                        let pos = off + k;
                        let x = base.bytes[pos];
                        let nb = if pos + 1 < n { base.bytes[pos + 1] } else { x };
                        for (vi, v) in [0u8, 1, 0xFF, 0x7F, 0x80, x.wrapping_add(1), x.wrapping_sub(1), nb].iter().enumerate() {
                            for with_fix in [false, true] {
                                if with_fix && *fix == Fix::None {
                                    continue;
                                }
                                if !sampled(&mut counter) {
                                    continue;
                                }
                                let mut c = base.bytes.clone();
                                c[pos] = *v;
                                if vi == 7 && pos + 1 < n {
                                    c[pos + 1] = x; // swap with neighbour
                                }
                                if with_fix {
                                    apply_fix(&mut c, *fix);
                                }
                                let cell = format!("{fmtname}|{}|field{}|{fc}", reader.name(), if with_fix { "+crcfix" } else { "" });
                                let agg = per_field.entry(format!("{fc}{with_fix}")).or_insert_with(Agg::new);
                                judge(
                                    agg,
                                    &base,
                                    reader,
                                    &c,
                                    class,
                                    &format!("{fc}: byte {pos} := {v:#x} crcfix={with_fix}"),
                                    pos,
                                    0,
                                    &cell,
                                );
                            }
                        }
                    }
                }
            }
            "region" => {
                // boundaries from the field table +-1, plus random places
                let mut bounds: Vec<usize> = base.fields.iter().flat_map(|(_, o, l, _)| [*o, o + l]).collect();
                bounds.sort_unstable();
                bounds.dedup();
                let mut places: Vec<usize> = Vec::new();
                for b in &bounds {
                    for d in [-1isize, 0, 1] {
                        let p = *b as isize + d;
                        if p >= 0 && (p as usize) <= n {
                            places.push(p as usize);
                        }
                    }
                }
                for _ in 0..200 {
                    places.push(r.usize_below(n + 1));
                }
                for &p in &places {
                    for op in 0..4 {
                        if !sampled(&mut counter) {
                            continue;
                        }
                        let len = *r.pick(&[1usize, 2, 3, 4, 8, 20, 26, 100]);
                        let mut c = base.bytes.clone();
                        let (opname, delta): (&str, isize) = match op {
                            0 => {
                                let e = (p + len).min(n);
                                c.drain(p.min(n)..e);
                                ("delete", -((e - p.min(n)) as isize))
                            }
                            1 => {
                                let e = (p + len).min(n);
                                let seg: Vec<u8> = c[p.min(n)..e].to_vec();
                                let l = seg.len();
                                c.splice(p.min(n)..p.min(n), seg);
                                ("duplicate", l as isize)
                            }
                            2 => {
                                let ins = r.bytes(len);
                                c.splice(p.min(n)..p.min(n), ins);
                                ("insert", len as isize)
                            }
                            _ => {
                                // transpose two adjacent regions
                                let a = p.min(n);
                                let m = (a + len).min(n);
                                let e = (m + len).min(n);
                                c[a..e].rotate_left(m - a);
                                ("transpose", 0)
                            }
                        };
                        let fc = field_class(field_at(&base, p.min(n.saturating_sub(1))));
                        let cell = format!("{fmtname}|{}|region-{opname}|{fc}", reader.name());
                        let agg = per_field.entry(format!("{opname}{fc}")).or_insert_with(Agg::new);
                        judge(agg, &base, reader, &c, class, &format!("{opname} {len} at {p}"), p, delta, &cell);
                    }
                }
            }
            "unit-ops" => {
                // whole structural units duplicated / deleted / swapped (XZ: blocks and LZMA2 chunks; the
                // index and the block checks are what must catch it). LZIP members are self-contained,
                // re-arranging them yields another valid file, so LZIP is not part of this class.
                if base.fmt == Fmt::Xz {
                    if let Ok(sw) = walk::walk_xz_stream(&base.bytes, 0) {
                        let mut units: Vec<(String, usize, usize)> = Vec::new();
                        for (bi, b) in sw.blocks.iter().enumerate() {
                            units.push((format!("block{bi}"), b.header_off, b.end()));
                            for (ci, c) in b.lzma2.chunks.iter().enumerate() {
                                units.push((format!("block{bi}.chunk{ci}"), c.offset, c.offset + c.total()));
                            }
                        }
                        for (ui, (uname, a, e)) in units.iter().enumerate() {
                            for op in 0..3 {
                                let mut c = base.bytes.clone();
                                let (opname, delta): (&str, isize) = match op {
                                    0 => {
                                        let seg = c[*a..*e].to_vec();
                                        c.splice(*e..*e, seg);
                                        ("duplicate-unit", (*e - *a) as isize)
                                    }
                                    1 => {
                                        c.drain(*a..*e);
                                        ("delete-unit", -((*e - *a) as isize))
                                    }
                                    _ => {
                                        // swap with the next unit of the same kind
                                        let Some((_, a2, e2)) = units.iter().skip(ui + 1).find(|(n, _, _)| n.matches('.').count() == uname.matches('.').count() && *n != *uname) else { continue };
                                        if *a2 < *e {
                                            continue;
                                        }
                                        let first = base.bytes[*a..*e].to_vec();
                                        let mid = base.bytes[*e..*a2].to_vec();
                                        let second = base.bytes[*a2..*e2].to_vec();
                                        let mut n2 = base.bytes[..*a].to_vec();
                                        n2.extend_from_slice(&second);
                                        n2.extend_from_slice(&mid);
                                        n2.extend_from_slice(&first);
                                        n2.extend_from_slice(&base.bytes[*e2..]);
                                        c = n2;
                                        ("swap-units", 0)
                                    }
                                };
                                let kind = if uname.contains("chunk") { "lzma2-chunk" } else { "block" };
                                let cell = format!("{fmtname}|{}|{opname}|{kind}", reader.name());
                                let agg = per_field.entry(format!("{opname}{kind}")).or_insert_with(Agg::new);
                                judge(agg, &base, reader, &c, opname, &format!("{kind}: {uname}"), *a, delta, &cell);
                            }
                        }
                    }
                } else if base.fmt == Fmt::Lzip {
                    // a member cut down to its first k bytes (the rest of the file follows), and k
                    // foreign bytes in front of the first member: neither is "trailing garbage"
                    let starts: Vec<usize> = base.members.iter().map(|m| m.0).collect();
                    for (j, &a) in starts.iter().enumerate() {
                        let e = starts.get(j + 1).copied().unwrap_or(n);
                        for k in [1usize, 3, 4, 6, 10, 19, 20, 21, 25, 26] {
                            if a + k >= e {
                                continue;
                            }
                            let mut c = base.bytes[..a + k].to_vec();
                            c.extend_from_slice(&base.bytes[e..]);
                            let which = if j == 0 { "first-member" } else { "later-member" };
                            let cell = format!("{fmtname}|{}|cut-member|{which}", reader.name());
                            let agg = per_field.entry(format!("cut-member{which}")).or_insert_with(Agg::new);
                            judge(agg, &base, reader, &c, "cut-member", &format!("{which}: member {j} cut to its first {k} bytes"), a + k, -((e - a - k) as isize), &cell);
                        }
                    }
                    for k in [1usize, 2, 5, 19, 20, 21, 26, 40] {
                        let mut c: Vec<u8> = r.bytes(k).into_iter().map(|b| if b == b'L' { b'M' } else { b }).collect();
                        c.extend_from_slice(&base.bytes);
                        let cell = format!("{fmtname}|{}|leading-garbage", reader.name());
                        let agg = per_field.entry("leading-garbage".to_string()).or_insert_with(Agg::new);
                        judge(agg, &base, reader, &c, "leading-garbage", &format!("{k} foreign bytes in front of the file"), 0, k as isize, &cell);
                    }
                }
            }
            _ => {
                // truncations at every length and appended bytes (zeros / garbage / copy of itself head)
                for cut in 0..n {
                    if !sampled(&mut counter) {
                        continue;
                    }
                    let c = base.bytes[..cut].to_vec();
                    let fc = field_class(field_at(&base, cut));
                    let cell = format!("{fmtname}|{}|truncate|{fc}", reader.name());
                    let agg = per_field.entry(format!("t{fc}")).or_insert_with(Agg::new);
                    // LZIP truncated inside the magic of a later member: either way is accepted (C05 scope rule)
                    if base.fmt == Fmt::Lzip && base.members.iter().any(|m| m.0 > 0 && cut > m.0 && cut < m.0 + 4) {
                        continue;
                    }
                    let cls = if cut == 0 { "truncate-to-zero-bytes" } else { "truncate" };
                    judge(agg, &base, reader, &c, cls, &format!("cut at {cut}"), cut, -((n - cut) as isize), &cell);
                }
                for k in 0..64 {
                    let mut c = base.bytes.clone();
                    let extra = match k % 4 {
                        0 => vec![0u8; 1 + k],
                        1 => r.bytes(1 + k),
                        2 => base.bytes[..(k + 3).min(n)].to_vec(),
                        _ => vec![0xFFu8; 4 * k + 1],
                    };
                    // appended bytes are "different, extra" input: readers may reject or ignore them
                    // (LZIP: trailing garbage), but must not return different data
                    c.extend_from_slice(&extra);
                    let cell = format!("{fmtname}|{}|append", reader.name());
                    let agg = per_field.entry("append".to_string()).or_insert_with(Agg::new);
                    judge(agg, &base, reader, &c, "append", &format!("{} bytes appended (kind {})", extra.len(), k % 4), n, extra.len() as isize, &cell);
                }
            }
        }
        for (_k, agg) in per_field {
            let cell = agg
                .viols
                .first()
                .map(|v| v.cell.clone())
                .unwrap_or_else(|| format!("{fmtname}|{}|{class}", reader.name()));
            let _ = cell;
            out.extend(agg.viols);
            let total = agg.held_err + agg.held_same + agg.held_tolerated;
            if total > 0 {
                let top: Vec<String> = agg.err_msgs.iter().take(4).map(|(m, c)| format!("{c}x {m}")).collect();
                out.push(
                    CaseOut::held(
                        format!("{fmtname}|{}|{class}|{_k}", reader.name()),
                        agg.held_err > 0,
                        format!(
                            "{}: {} corruptions -> {} Err, {} Ok(original), {} tolerated (LZIP trailing garbage, or the edit gave another valid file by the reference decoder); e.g. {}",
                            base.name,
                            total,
                            agg.held_err,
                            agg.held_same,
                            agg.held_tolerated,
                            top.join("; ")
                        ),
                    )
                    .times(total),
                );
            }
            if agg.skipped_panic > 0 {
                out.push(
                    CaseOut::skip(
                        format!("{fmtname}|{}|{class}|{_k}", reader.name()),
                        "reader panicked (not a wrong-data outcome; judged by C06)",
                        base.name.clone(),
                    )
                    .times(agg.skipped_panic),
                );
            }
            if agg.skipped_hang > 0 {
                out.push(
                    CaseOut::skip(
                        format!("{fmtname}|{}|{class}|{_k}", reader.name()),
                        "reader did not return within 5 s (not a wrong-data outcome; judged by C09)",
                        base.name.clone(),
                    )
                    .times(agg.skipped_hang),
                );
            }
        }
    }
    out
}

/// Arbitrary non-format byte strings: must be rejected, never decoded as an empty file.
fn garbage_case(ctx: &Ctx, j: u64) -> Vec<CaseOut> {
    let mut r = Rng::new(mix(ctx.seed, 0xC04_A000 + j));
    let mut out = Vec::new();
    let lz = base_file(ctx, 1).bytes;
    let xz = base_file(ctx, 0).bytes;
    for reader in [Reader::XzSingle, Reader::XzMulti, Reader::Lzip, Reader::LzipMt] {
        let n = if reader == Reader::LzipMt { 20 } else { 400 };
        let mut errs = 0u64;
        let mut viols: Vec<CaseOut> = Vec::new();
        let mut skipped = 0u64;
        for _ in 0..n {
            let kind = r.below(8);
            let len = r.log_range(1, 3000) as usize;
            let s: Vec<u8> = match kind {
                0 => r.bytes(len),
                1 => vec![0u8; len],
                2 => vec![0xFFu8; len],
                3 => {
                    // right magic, garbage after it
                    let mut v = if matches!(reader, Reader::XzSingle | Reader::XzMulti) {
                        vec![0xFD, b'7', b'z', b'X', b'Z', 0]
                    } else {
                        b"LZIP".to_vec()
                    };
                    v.extend(r.bytes(len));
                    v
                }
                4 => {
                    // the other format's valid file
                    if matches!(reader, Reader::XzSingle | Reader::XzMulti) {
                        lz.clone()
                    } else {
                        xz.clone()
                    }
                }
                5 => {
                    // magic with a damaged byte
                    let mut v = if matches!(reader, Reader::XzSingle | Reader::XzMulti) {
                        xz.clone()
                    } else {
                        lz.clone()
                    };
                    let p = r.usize_below(4);
                    v[p] ^= 1 << r.below(8);
                    v
                }
                6 => gen::gen_data(&mut r, Family::Text, len),
                _ => {
                    // LZIP header with damaged version / dict byte, valid magic
                    let mut v = lz.clone();
                    if r.chance(1, 2) {
                        v[4] = r.next_u32() as u8;
                        if v[4] == 1 {
                            v[4] = 2;
                        }
                    } else {
                        v[5] = *r.pick(&[0u8, 0x0B, 0x1E, 0x1F, 0xFE, 0xFF]);
                    }
                    if matches!(reader, Reader::XzSingle | Reader::XzMulti) {
                        r.bytes(len)
                    } else {
                        v
                    }
                }
            };
            match decode_with(reader, &s, 1 << 22) {
                Dec::Err(_) => errs += 1,
                Dec::Panic(_) | Dec::Hang => skipped += 1,
                Dec::Ok(o) => {
                    let kindname = ["random", "zeros", "ones", "magic+garbage", "other-format", "damaged-magic", "text", "damaged-header"][kind as usize];
                    if viols.len() < 10 {
                        viols.push(CaseOut::viol(
                            format!("garbage|{}|{kindname}", reader.name()),
                            format!(
                                "{} accepts non-format input ({kindname}) as Ok({})",
                                reader.name(),
                                if o.is_empty() { "empty" } else { "data" }
                            ),
                            format!("{} bytes in, {} bytes out", s.len(), o.len()),
                            format!("input {}", short(&s)),
                        ));
                    }
                }
            }
        }
        out.extend(viols);
        if errs > 0 {
            out.push(
                CaseOut::held(
                    format!("garbage|{}", reader.name()),
                    true,
                    format!("{errs} non-format strings rejected with Err"),
                )
                .times(errs),
            );
        }
        if skipped > 0 {
            out.push(
                CaseOut::skip(
                    format!("garbage|{}", reader.name()),
                    "reader panicked or hung on garbage (judged by C06/C09)",
                    "",
                )
                .times(skipped),
            );
        }
    }
    out
}
