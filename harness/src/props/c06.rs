//! C06 - decoders stay total on untrusted bytes: no panic, abort, hang or blow-up.

use std::io::{Cursor, Read};

use lzma_rust2::filter::bcj2::BCJ2Reader;
use lzma_rust2::filter::delta::DeltaReader;
use lzma_rust2::{
    EncodeMode, LZIPReader, LZIPReaderMT, LZMA2Reader, LZMA2ReaderMT, LZMAOptions, LZMAReader, MFType, XZReader,
};

use crate::alloc;
use crate::case::{catch, stat_add, stat_max, CaseOut, Ctx};
use crate::gen::{self, Family};
use crate::mt::{self, Guarded};
use crate::ours::{encode, Container, Spec};
use crate::props::c04::{self, Fix};
use crate::props::c05::mk_bcj_reader;
use crate::util::{short, Rng};
use crate::walk;

pub const STEER: u64 = 44;

pub fn n_cases(ctx: &Ctx) -> u64 {
    let base = match (ctx.variant.as_str(), ctx.thorough()) {
        ("miri", false) => 20,
        ("miri", true) => 200,
        ("vg", false) => 300,
        ("vg", true) => 5000,
        ("dbg0", false) => 1500,
        ("dbg0", true) => 6000,
        ("dbg", false) => 6000,
        ("dbg", true) => 100_000,
        ("asan", false) => 10_000,
        ("asan", true) => 250_000,
        (_, false) => 60_000,
        (_, true) => 2_000_000,
    };
    STEER + ctx.scaled(base)
}

#[derive(Clone, Debug, PartialEq)]
pub enum Rd {
    LzmaHeader { mem_limit_kb: u32 },
    LzmaProps { props: u8, dict: u32, size: u64 },
    LzmaLcLpPb { lc: u32, lp: u32, pb: u32, dict: u32, size: u64 },
    Lzma2 { dict: u32 },
    Xz { multi: bool },
    Lzip,
    LzipMt { workers: u32 },
    Lzma2Mt { dict: u32, workers: u32 },
    Bcj { id: u8, off: u32 },
    Delta { dist: usize },
    Bcj2 { size: u64 },
    /// LZMA2Reader / LZMA2ReaderMT with a caller-supplied preset dictionary of `preset` bytes
    Lzma2Preset { dict: u32, preset: usize, mt: bool },
    /// LZMAReader::new_with_props with a preset dictionary
    LzmaPreset { dict: u32, preset: usize, size: u64 },
}

impl Rd {
    pub fn name(&self) -> String {
        match self {
            Rd::LzmaHeader { .. } => "LZMAReader::new_mem_limit".into(),
            Rd::LzmaProps { .. } => "LZMAReader::new_with_props".into(),
            Rd::LzmaLcLpPb { .. } => "LZMAReader::new".into(),
            Rd::Lzma2 { .. } => "LZMA2Reader".into(),
            Rd::Xz { multi: false } => "XZReader".into(),
            Rd::Xz { multi: true } => "XZReader(multi)".into(),
            Rd::Lzip => "LZIPReader".into(),
            Rd::LzipMt { .. } => "LZIPReaderMT".into(),
            Rd::Lzma2Mt { .. } => "LZMA2ReaderMT".into(),
            Rd::Bcj { id, .. } => format!("BCJReader({})", crate::props::c02::BCJ_IDS.iter().find(|b| b.0 == *id).map(|b| b.2).unwrap_or("?")),
            Rd::Delta { .. } => "DeltaReader".into(),
            Rd::Bcj2 { .. } => "BCJ2Reader".into(),
            Rd::Lzma2Preset { mt: false, .. } => "LZMA2Reader(preset-dict)".into(),
            Rd::Lzma2Preset { mt: true, .. } => "LZMA2ReaderMT(preset-dict)".into(),
            Rd::LzmaPreset { .. } => "LZMAReader(preset-dict)".into(),
        }
    }
}

pub struct Case {
    pub reader: Rd,
    pub input: Vec<u8>,
    /// BCJ2 side streams
    pub extra: Vec<Vec<u8>>,
    pub class: String,
    /// dictionary the input (or the caller parameter) declares, bytes
    pub declared_dict: u64,
    pub bufsize: usize,
    pub note: String,
}

fn fast(dict: u32) -> LZMAOptions {
    LZMAOptions::new(dict, 3, 0, 2, EncodeMode::Fast, 32, MFType::HC4, 0)
}

fn lzma_dict_round(d: u32) -> u64 {
    ((d.max(4096) as u64) + 15) & !15
}

pub const LZMA2_DICTS: [u32; 12] = [
    4096,
    6144,
    8192,
    1 << 16,
    3 << 15,
    1 << 20,
    1 << 24,
    3 << 24,
    1 << 26,
    0,
    4097,
    12345,
];

fn valid_stream(r: &mut Rng, c: Container, len: usize) -> (Vec<u8>, Vec<u8>) {
    let fam = *r.pick(&[Family::Text, Family::Exe, Family::EditRepeat, Family::Sandwich, Family::Random]);
    let data = gen::gen_data(r, fam, len);
    let spec = Spec { c, o: fast(4096) };
    let part = vec![4096usize; data.len() / 4096 + 1];
    let bytes = encode(&spec, &data, &part, 0).unwrap_or_default();
    (bytes, data)
}

fn mutate(r: &mut Rng, b: &mut Vec<u8>) -> String {
    if b.is_empty() {
        return "empty".into();
    }
    let n = 1 + r.usize_below(4);
    let mut d = Vec::new();
    for _ in 0..n {
        let p = r.usize_below(b.len());
        match r.below(7) {
            0 | 1 => {
                b[p] ^= 1 << r.below(8);
                d.push(format!("flip@{p}"));
            }
            2 => {
                b[p] = *r.pick(&[0u8, 0xFF, 0x80, 0x7F, 1]);
                d.push(format!("set@{p}"));
            }
            3 => {
                let e = (p + 1 + r.usize_below(20)).min(b.len());
                b.drain(p..e);
                d.push(format!("del@{p}"));
                if b.is_empty() {
                    break;
                }
            }
            4 => {
                let n = 1 + r.usize_below(8);
                let ins = r.bytes(n);
                b.splice(p..p, ins);
                d.push(format!("ins@{p}"));
            }
            5 => {
                let e = (p + 1 + r.usize_below(30)).min(b.len());
                let seg = b[p..e].to_vec();
                b.splice(p..p, seg);
                d.push(format!("dup@{p}"));
            }
            _ => {
                b.truncate(p.max(1));
                d.push(format!("cut@{p}"));
            }
        }
    }
    d.join(",")
}

/// Lenient multibyte integer (non-minimal encodings accepted, as a tolerant reader might).
fn lenient_vli(b: &[u8], mut i: usize) -> Option<(u64, usize)> {
    let mut v = 0u64;
    for k in 0..9 {
        let x = *b.get(i)?;
        i += 1;
        v |= ((x & 0x7F) as u64) << (7 * k);
        if x & 0x80 == 0 {
            return Some((v, i));
        }
    }
    None
}

/// Largest dictionary an XZ input could be taken to declare (lenient: at every offset, a filter
/// id 0x21 followed by a properties size of 1 in any multibyte encoding, then the property byte).
fn xz_declared(b: &[u8]) -> u64 {
    let mut m = 0u64;
    for i in 0..b.len() {
        let Some((id, j)) = lenient_vli(b, i) else { continue };
        if id != 0x21 {
            continue;
        }
        let Some((ps, k)) = lenient_vli(b, j) else { continue };
        if ps != 1 {
            continue;
        }
        if let Some(&p) = b.get(k) {
            if p <= 40 {
                let d = if p == 40 { 0xFFFF_FFFFu64 } else { (2 | (p as u64 & 1)) << (p / 2 + 11) };
                m = m.max(d);
            }
        }
    }
    m
}

fn lzip_declared(b: &[u8]) -> u64 {
    let mut m = 0u64;
    for i in 0..b.len().saturating_sub(5) {
        if &b[i..i + 4] == b"LZIP" {
            if let Some(d) = walk::lzip_dict_size(b[i + 5]) {
                m = m.max(d as u64);
            }
        }
    }
    m
}

fn xz_with_index(bytes: &[u8], body: &[u8]) -> Option<Vec<u8>> {
    // replaces the index (indicator + body) of a single-stream file, fixes padding, CRC and footer
    let s = walk::walk_xz_stream(bytes, 0).ok()?;
    let mut out = bytes[..s.index_off].to_vec();
    let mut idx = vec![0u8];
    idx.extend_from_slice(body);
    while idx.len() % 4 != 0 {
        idx.push(0);
    }
    let crc = walk::crc32(&idx);
    idx.extend_from_slice(&crc.to_le_bytes());
    out.extend_from_slice(&idx);
    let backward = (idx.len() / 4 - 1) as u32;
    let mut f = Vec::new();
    f.extend_from_slice(&backward.to_le_bytes());
    f.extend_from_slice(&[0, s.check_type]);
    let fcrc = walk::crc32(&f);
    out.extend_from_slice(&fcrc.to_le_bytes());
    out.extend_from_slice(&f);
    out.extend_from_slice(b"YZ");
    Some(out)
}

fn vli(v: u64) -> Vec<u8> {
    let mut o = Vec::new();
    walk::write_vli(v, &mut o);
    o
}

fn steer_case(ctx: &Ctx, idx: u64, r: &mut Rng) -> Case {
    let big = !ctx.slow();
    let (xz, xzdata) = valid_stream(r, Container::Xz { check: 1, block: None, filters: vec![] }, 3000);
    let _ = xzdata;
    let mk = |reader: Rd, input: Vec<u8>, class: &str, declared: u64, note: &str| Case {
        reader,
        input,
        extra: vec![],
        class: class.to_string(),
        declared_dict: declared,
        bufsize: 4096,
        note: note.to_string(),
    };
    match idx {
        0 => {
            // index with 2^63-1 records
            let b = xz_with_index(&xz, &vli((1 << 63) - 1)).unwrap_or_default();
            mk(Rd::Xz { multi: false }, b, "xz-index-count-huge", 4096, "index record count 2^63-1")
        }
        1 => {
            let b = xz_with_index(&xz, &vli(1 << 36)).unwrap_or_default();
            mk(Rd::Xz { multi: false }, b, "xz-index-count-2^36", 4096, "index record count 2^36 (a 1 TiB reservation)")
        }
        2 => {
            // LZMA2 dictionary property 40 in the block header (declares 4 GiB - 1)
            let mut b = xz.clone();
            if let Ok(s) = walk::walk_xz_stream(&xz, 0) {
                let h = &s.blocks[0];
                let p = h.header_off + h.header_len - 4;
                // find the prop byte: last non-padding byte before the crc
                let mut q = p - 1;
                while q > h.header_off && b[q] == 0 {
                    q -= 1;
                }
                b[q] = 40;
                let c = walk::crc32(&b[h.header_off..p]);
                b[p..p + 4].copy_from_slice(&c.to_le_bytes());
            }
            mk(Rd::Xz { multi: false }, b, "xz-dict-prop-40", 0xFFFF_FFFF, "LZMA2 dict property 40")
        }
        3 => mk(Rd::Lzma2 { dict: 0xFFFF_FFFF }, vec![0x01, 0x00, 0x00, 0x41, 0x00], "lzma2-dict-max", 0xFFFF_FFFF, "caller dict 0xFFFFFFFF"),
        4 => mk(Rd::Lzma2 { dict: 0 }, vec![0x01, 0x00, 0x00, 0x41, 0x00], "lzma2-dict-0", 0, "caller dict 0"),
        5 | 6 => {
            // many empty LZIP members (the MT reader also in the slow builds: recursion per unit is
            // only turned into a loop by the optimiser)
            let n = if big { 200_000 } else { 300 };
            let e = encode(&Spec { c: Container::Lzip { member: None }, o: fast(4096) }, &[], &[0], 0).unwrap_or_default();
            let mut b = Vec::with_capacity(e.len() * n);
            for _ in 0..n {
                b.extend_from_slice(&e);
            }
            if idx == 5 {
                mk(Rd::Lzip, b, "lzip-many-empty-members", 4096, &format!("{n} empty members"))
            } else {
                mk(Rd::LzipMt { workers: 4 }, b, "lzip-many-empty-members", 4096, &format!("{n} empty members"))
            }
        }
        7 => {
            // many empty XZ streams, multi-stream mode
            let n = if big { 100_000 } else { 200 };
            let e = encode(&Spec { c: Container::Xz { check: 1, block: None, filters: vec![] }, o: fast(4096) }, &[], &[0], 0).unwrap_or_default();
            let mut b = Vec::with_capacity(e.len() * n);
            for _ in 0..n {
                b.extend_from_slice(&e);
            }
            mk(Rd::Xz { multi: true }, b, "xz-many-empty-streams", 4096, &format!("{n} empty streams"))
        }
        8 => {
            // many tiny LZMA2 units for the MT reader
            let n = if big { 50_000 } else { 100 };
            let (s, _) = mt::handmade_lzma2(r, n, 1, 1, true);
            mk(Rd::Lzma2Mt { dict: 4096, workers: 4 }, s, "lzma2-many-tiny-units", 4096, &format!("{n} one-byte units"))
        }
        9..=12 => {
            // decompression bombs: 32 MiB of zeros
            let n = if big { 32 << 20 } else { 1 << 16 };
            let data = vec![0u8; n];
            let (c, rd): (Container, Rd) = match idx {
                9 => (Container::Lzma2 { chunk: None }, Rd::Lzma2 { dict: 4096 }),
                10 => (Container::Xz { check: 1, block: None, filters: vec![] }, Rd::Xz { multi: false }),
                11 => (Container::Lzip { member: None }, Rd::Lzip),
                _ => (Container::LzmaHeaderMarker, Rd::LzmaHeader { mem_limit_kb: u32::MAX }),
            };
            let b = encode(&Spec { c, o: fast(4096) }, &data, &[n], 0).unwrap_or_default();
            mk(rd, b, "bomb", 4096, &format!("{n} zero bytes"))
        }
        13 | 14 => {
            let n = if big { 32 << 20 } else { 1 << 16 };
            let data = vec![0u8; n];
            if idx == 13 {
                let b = encode(&Spec { c: Container::Lzma2 { chunk: None }, o: fast(4096) }, &data, &[n], 0).unwrap_or_default();
                mk(Rd::Lzma2Mt { dict: 4096, workers: 2 }, b, "bomb", 4096, &format!("{n} zero bytes, one unit"))
            } else {
                let b = encode(&Spec { c: Container::Lzip { member: None }, o: fast(4096) }, &data, &[n], 0).unwrap_or_default();
                mk(Rd::LzipMt { workers: 2 }, b, "bomb", 4096, &format!("{n} zero bytes, one member"))
            }
        }
        15 => {
            // .lzma header: dict 0xFFFFFFFF, size 2^63
            let mut b = vec![0x5D];
            b.extend_from_slice(&0xFFFF_FFFFu32.to_le_bytes());
            b.extend_from_slice(&(1u64 << 63).to_le_bytes());
            b.extend_from_slice(&[0, 0, 0, 0, 0, 0, 0, 0]);
            mk(Rd::LzmaHeader { mem_limit_kb: 1 << 20 }, b, "lzma-header-extreme", 0xFFFF_FFFF, "dict 0xFFFFFFFF size 2^63, limit 1 GiB")
        }
        16 => {
            let mut b = vec![0x5D];
            b.extend_from_slice(&0u32.to_le_bytes());
            b.extend_from_slice(&u64::MAX.to_le_bytes());
            b.extend_from_slice(&[0, 0, 0, 0, 0, 0xFF, 0xFF, 0xFF]);
            mk(Rd::LzmaHeader { mem_limit_kb: u32::MAX }, b, "lzma-header-extreme", 4096, "dict 0 size unknown")
        }
        17 => mk(Rd::LzmaProps { props: 224, dict: 4096, size: 10 }, vec![0; 20], "lzma-props-224", 4096, "props byte 224 (pb=4 lp=4 lc=8)"),
        18 => mk(Rd::LzmaProps { props: 225, dict: 4096, size: 10 }, vec![0; 20], "lzma-props-225", 4096, "props byte 225 (invalid)"),
        19 => mk(Rd::Bcj { id: 4, off: 0x7FFF_FFF0 }, r.bytes(4000).iter().map(|b| if b % 7 == 0 { 0xE8 } else { *b }).collect(), "bcj-offset-2^31", 0, "x86 start offset near 2^31"),
        20 => mk(Rd::Bcj { id: 7, off: 0xFFFF_FFFC }, r.bytes(4000).iter().enumerate().map(|(i, b)| if i % 4 == 3 { 0xEB } else { *b }).collect(), "bcj-offset-2^32", 0, "arm start offset 2^32-4"),
        21 => mk(Rd::Bcj { id: 5, off: 0x7FFF_FFFC }, r.bytes(4000).iter().enumerate().map(|(i, b)| if i % 4 == 0 { 0x4B } else if i % 4 == 3 { (b & 0xFC) | 1 } else { *b }).collect(), "bcj-offset-2^31", 0, "ppc start offset near 2^31"),
        22 => mk(Rd::Bcj { id: 9, off: 0x7FFF_FFFC }, r.bytes(4000).iter().enumerate().map(|(i, b)| if i % 4 == 0 { 0x40 } else if i % 4 == 1 { b & 0x3F } else { *b }).collect(), "bcj-offset-2^31", 0, "sparc start offset near 2^31"),
        23 => {
            // LZIP: truncated trailer, then one more read
            let (b, _) = valid_stream(r, Container::Lzip { member: None }, 500);
            let n = b.len() - 7;
            mk(Rd::Lzip, b[..n].to_vec(), "lzip-truncated-trailer", 4096, "trailer cut, reads continue after the error")
        }
        24 => {
            // LZMA2 chunk whose range coder runs past its end (direct bits at the end of a chunk)
            let mut b = vec![0xE0, 0x00, 0xFF, 0x00, 0x05, 0x5D, 0x00, 0xFF, 0xFF, 0xFF, 0xFF, 0xFF];
            b.push(0);
            mk(Rd::Lzma2 { dict: 4096 }, b, "lzma2-overrun-chunk", 4096, "6-byte chunk full of 0xFF")
        }
        25 => {
            // XZ: block header size byte 255 with garbage
            let mut b = xz[..12].to_vec();
            b.push(0xFF);
            b.extend(r.bytes(1100));
            mk(Rd::Xz { multi: false }, b, "xz-block-header-size-255", 0, "block header size 1024")
        }
        26 => {
            let b = xz_with_index(&xz, &[0xFF, 0xFF, 0xFF, 0xFF, 0xFF, 0xFF, 0xFF, 0xFF, 0xFF, 0x7F]).unwrap_or_default();
            mk(Rd::Xz { multi: false }, b, "xz-vli-10-bytes", 4096, "10-byte multibyte integer in the index")
        }
        27 => {
            // LZIP member_size 0 / huge for the MT scanner
            let (mut b, _) = valid_stream(r, Container::Lzip { member: None }, 500);
            let n = b.len();
            b[n - 8..].copy_from_slice(&0u64.to_le_bytes());
            mk(Rd::LzipMt { workers: 2 }, b, "lzip-member-size-0", 4096, "member_size 0")
        }
        37 => {
            // member_size 0 in the trailer of a member that is NOT the last one
            let (a, _) = valid_stream(r, Container::Lzip { member: None }, 500);
            let (c, _) = valid_stream(r, Container::Lzip { member: None }, 700);
            let mut b = a.clone();
            let n = b.len();
            b[n - 8..].copy_from_slice(&0u64.to_le_bytes());
            b.extend_from_slice(&c);
            mk(Rd::LzipMt { workers: 2 }, b, "lzip-member-size-0-inner", 4096, "member_size 0 in the first of two members")
        }
        28 => {
            let (mut b, _) = valid_stream(r, Container::Lzip { member: None }, 500);
            let n = b.len();
            b[n - 8..].copy_from_slice(&u64::MAX.to_le_bytes());
            mk(Rd::LzipMt { workers: 2 }, b, "lzip-member-size-max", 4096, "member_size 2^64-1")
        }
        29 => mk(Rd::Delta { dist: 256 }, r.bytes(3000), "delta", 0, "distance 256"),
        30 => mk(Rd::Delta { dist: 1 }, vec![], "delta", 0, "empty input"),
        31 => {
            let mut c = mk(Rd::Bcj2 { size: 5000 }, r.bytes(3000), "bcj2-random", 0, "random four streams");
            c.extra = vec![r.bytes(400), r.bytes(400), r.bytes(300)];
            c
        }
        32 => {
            let mut c = mk(Rd::Bcj2 { size: u64::MAX }, vec![0xE8; 3000], "bcj2-random", 0, "all E8, size 2^64-1");
            c.extra = vec![vec![0; 40], vec![0; 40], vec![0; 30]];
            c
        }
        33 => mk(Rd::LzmaLcLpPb { lc: 8, lp: 4, pb: 4, dict: 4096, size: u64::MAX }, r.bytes(2000), "lzma-lc8lp4", 4096, "lc=8 lp=4 pb=4 random input"),
        34 => mk(Rd::LzmaLcLpPb { lc: 9, lp: 5, pb: 5, dict: 4096, size: 10 }, vec![0; 30], "lzma-lc9", 4096, "lc=9 lp=5 pb=5"),
        35 => mk(Rd::LzmaProps { props: 0x5D, dict: 0xFFFF_FFFF, size: 100 }, vec![0; 30], "lzma-dict-max", 4096, "dict 0xFFFFFFFF with size 100"),
        36 => {
            // XZ with many empty blocks
            let n = if big { 100_000 } else { 100 };
            let e = encode(&Spec { c: Container::Xz { check: 0, block: None, filters: vec![] }, o: fast(4096) }, b"x", &[1], 0).unwrap_or_default();
            let mut out = e[..12].to_vec();
            if let Ok(s) = walk::walk_xz_stream(&e, 0) {
                let bl = &s.blocks[0];
                let header = &e[bl.header_off..bl.header_off + bl.header_len];
                let mut idx = vli(n as u64);
                for _ in 0..n {
                    out.extend_from_slice(header);
                    out.extend_from_slice(&[0x00, 0, 0, 0]); // empty LZMA2 stream + padding
                    idx.extend(vli(bl.header_len as u64 + 1));
                    idx.extend(vli(0));
                }
                let mut tmp = out.clone();
                tmp.extend_from_slice(&e[s.index_off..]);
                // reuse xz_with_index on a file whose walker view is simple: build manually
                let mut ib = vec![0u8];
                ib.extend_from_slice(&idx);
                while ib.len() % 4 != 0 {
                    ib.push(0);
                }
                let crc = walk::crc32(&ib);
                ib.extend_from_slice(&crc.to_le_bytes());
                out.extend_from_slice(&ib);
                let backward = (ib.len() / 4 - 1) as u32;
                let mut f = Vec::new();
                f.extend_from_slice(&backward.to_le_bytes());
                f.extend_from_slice(&[0, 0]);
                out.extend_from_slice(&walk::crc32(&f).to_le_bytes());
                out.extend_from_slice(&f);
                out.extend_from_slice(b"YZ");
            }
            mk(Rd::Xz { multi: false }, out, "xz-many-empty-blocks", 4096, &format!("{n} empty blocks"))
        }
        40..=42 => {
            // LZMA2 size fields at their maximum: an uncompressed chunk of exactly 65536 bytes (size
            // field 0xFFFF), valid (40, 41) and as a first chunk without dictionary reset (42)
            let mut b = vec![if idx == 42 { 0x02 } else { 0x01 }, 0xFF, 0xFF];
            b.extend(r.bytes(65536));
            b.push(0x00);
            if idx == 41 {
                mk(Rd::Lzma2Mt { dict: 65536, workers: 2 }, b, "lzma2-max-uncompressed-chunk", 65536, "uncompressed chunk of 65536 bytes")
            } else {
                mk(Rd::Lzma2 { dict: 65536 }, b, "lzma2-max-uncompressed-chunk", 65536, "uncompressed chunk of 65536 bytes")
            }
        }
        43 => {
            // LZMA chunk announcing 2 MiB of output and 64 KiB of input, with only a few input bytes
            let mut b = vec![0xFF, 0xFF, 0xFF, 0xFF, 0xFF, 0x5D];
            b.extend(r.bytes(100));
            mk(Rd::Lzma2 { dict: 4096 }, b, "lzma2-max-lzma-chunk", 4096, "LZMA chunk sizes 2 MiB / 64 KiB, truncated")
        }
        _ => {
            // Lzma2ReaderMT with garbage
            mk(Rd::Lzma2Mt { dict: 4096, workers: 3 }, r.bytes(500), "random", 4096, "random bytes")
        }
    }
}

fn random_case(ctx: &Ctx, r: &mut Rng) -> Case {
    let _ = ctx;
    let kind = r.below(24);
    let bufsize = *r.pick(&[1usize, 7, 4096, 4096, 65536]);
    let mut c = match kind {
        0 | 1 => {
            // random bytes to a random reader
            let len = r.log_range(1, 3000) as usize;
            let input = match r.below(4) {
                0 => vec![0u8; len],
                1 => vec![0xFFu8; len],
                _ => r.bytes(len),
            };
            let reader = random_reader(r, &input);
            let d = declared_for(&reader, &input);
            Case { reader, input, extra: vec![], class: "random".into(), declared_dict: d, bufsize, note: String::new() }
        }
        2..=9 => {
            // byte-level mutation of a valid stream, decoded by the matching reader
            let len = r.log_range(1, 9000) as usize;
            let (c, reader): (Container, Rd) = match r.below(9) {
                0 => (Container::LzmaHeaderSized, Rd::LzmaHeader { mem_limit_kb: 1 << 19 }),
                1 => (Container::LzmaHeaderMarker, Rd::LzmaHeader { mem_limit_kb: 1 << 19 }),
                2 => (Container::LzmaRawMarker, Rd::LzmaLcLpPb { lc: 3, lp: 0, pb: 2, dict: 4096, size: u64::MAX }),
                3 => (Container::Lzma2 { chunk: Some(4096) }, Rd::Lzma2 { dict: 4096 }),
                4 => (Container::Xz { check: *r.pick(&[0u8, 1, 4, 10]), block: Some(4096), filters: crate::props::c02::gen_filters(r) }, Rd::Xz { multi: r.chance(1, 2) }),
                5 => (Container::Lzip { member: Some(4096) }, Rd::Lzip),
                6 => (Container::Lzip { member: Some(4096) }, Rd::LzipMt { workers: 1 + r.below(4) as u32 }),
                7 => (Container::Lzma2 { chunk: Some(4096) }, Rd::Lzma2Mt { dict: 4096, workers: 1 + r.below(4) as u32 }),
                _ => (Container::Lzma2 { chunk: None }, Rd::Lzma2 { dict: *r.pick(&LZMA2_DICTS) }),
            };
            let single = matches!(&c, Container::Xz { filters, .. } if filters.iter().any(|f| f.0 != 3));
            let fam = *r.pick(&[Family::Text, Family::Exe, Family::EditRepeat, Family::Sandwich, Family::Random]);
            let data = gen::gen_data(r, fam, len);
            let part = if single { vec![data.len()] } else { vec![4096usize; data.len() / 4096 + 1] };
            let mut input = encode(&Spec { c, o: fast(4096) }, &data, &part, 0).unwrap_or_default();
            let note = mutate(r, &mut input);
            let d = declared_for(&reader, &input);
            Case { reader, input, extra: vec![], class: "mutated-valid".into(), declared_dict: d, bufsize, note }
        }
        10..=13 => {
            // structure-aware edit with CRC fix-up (reuses the C04 field tables)
            let f = r.below(c04::n_files(ctx));
            let base = c04::base_file(ctx, f);
            let mut b = base.bytes.clone();
            let edits = 1 + r.usize_below(2);
            let mut note = Vec::new();
            for _ in 0..edits {
                let (name, off, len, fix) = base.fields[r.usize_below(base.fields.len())].clone();
                if len == 0 {
                    continue;
                }
                let p = off + r.usize_below(len);
                let x = b[p];
                b[p] = *r.pick(&[0u8, 1, 0xFF, 0x7F, 0x80, x.wrapping_add(1), x.wrapping_sub(1), 40, 41, 0x21]);
                if fix != Fix::None && r.chance(3, 4) {
                    if let Fix::Crc32 { from, to, at } = fix {
                        if to <= b.len() && at + 4 <= b.len() {
                            let c = walk::crc32(&b[from..to]);
                            b[at..at + 4].copy_from_slice(&c.to_le_bytes());
                        }
                    }
                }
                note.push(format!("{name}@{p}:={:#x}", b[p]));
            }
            let reader = if base.fmt == c04::Fmt::Xz {
                Rd::Xz { multi: r.chance(1, 2) }
            } else if r.chance(1, 3) {
                Rd::LzipMt { workers: 2 }
            } else {
                Rd::Lzip
            };
            let d = declared_for(&reader, &b);
            Case { reader, input: b, extra: vec![], class: "field-edit+crcfix".into(), declared_dict: d, bufsize, note: note.join(",") }
        }
        14 => {
            // .lzma header extremes
            let props = if r.chance(1, 2) { r.below(256) as u8 } else { r.below(225) as u8 };
            let dict = *r.pick(&[0u32, 1, 4095, 4096, 4097, 1 << 20, 0x7FFF_FFFF, 0x8000_0000, 0xFFFF_FFF0, 0xFFFF_FFFF]);
            let size = *r.pick(&[0u64, 1, 100, 1 << 32, (1 << 63) - 1, 1 << 63, u64::MAX - 1, u64::MAX]);
            let mut b = vec![props];
            b.extend_from_slice(&dict.to_le_bytes());
            b.extend_from_slice(&size.to_le_bytes());
            let (body, _) = valid_stream(r, Container::LzmaRawMarker, 300);
            b.extend_from_slice(&body);
            let limit = *r.pick(&[0u32, 100, 1 << 16, 1 << 19]);
            Case {
                reader: Rd::LzmaHeader { mem_limit_kb: limit },
                input: b,
                extra: vec![],
                class: "lzma-header-extreme".into(),
                declared_dict: (limit as u64 * 1024).min(lzma_dict_round(dict)),
                bufsize,
                note: format!("props={props} dict={dict:#x} size={size:#x} limit={limit}KiB"),
            }
        }
        15 => {
            // caller-supplied parameters for headerless LZMA
            let (body, _) = valid_stream(r, Container::LzmaRawMarker, 300);
            let mut b = body;
            if r.chance(1, 2) {
                mutate(r, &mut b);
            }
            let dict = *r.pick(&[0u32, 1, 4096, 1 << 20, 1 << 26, 0xFFFF_FFF0, 0xFFFF_FFFF]);
            let size = *r.pick(&[0u64, 1, 300, 1 << 40, u64::MAX]);
            let reader = if r.chance(1, 2) {
                Rd::LzmaProps { props: r.below(256) as u8, dict, size }
            } else {
                Rd::LzmaLcLpPb { lc: r.below(10) as u32, lp: r.below(6) as u32, pb: r.below(6) as u32, dict, size }
            };
            // with a known small size the reader shrinks its dictionary
            let d = if size <= u64::MAX / 2 { lzma_dict_round(dict).min(lzma_dict_round(size.min(u32::MAX as u64) as u32)) } else { lzma_dict_round(dict) };
            Case { reader, input: b, extra: vec![], class: "lzma-caller-params".into(), declared_dict: d, bufsize, note: format!("dict={dict:#x} size={size:#x}") }
        }
        16 => {
            // LZMA2 chunk-level edits
            let (mut b, _) = valid_stream(r, Container::Lzma2 { chunk: Some(4096) }, 9000);
            let w = walk::walk_lzma2(&b, 0);
            let mut note = String::new();
            if !w.chunks.is_empty() {
                let c = &w.chunks[r.usize_below(w.chunks.len())];
                let p = c.offset + r.usize_below(c.header_len);
                b[p] = *r.pick(&[0u8, 1, 2, 3, 0x7F, 0x80, 0xA0, 0xC0, 0xE0, 0xFF, 224, 225]);
                note = format!("chunk header byte {p} := {:#x}", b[p]);
            }
            let dict = *r.pick(&LZMA2_DICTS);
            let reader = if r.chance(1, 3) { Rd::Lzma2Mt { dict, workers: 2 } } else { Rd::Lzma2 { dict } };
            Case { reader, input: b, extra: vec![], class: "lzma2-chunk-edit".into(), declared_dict: dict as u64, bufsize, note }
        }
        17 => {
            // BCJ / Delta over anything, any start offset
            let len = r.log_range(1, 20_000) as usize;
            let input = if r.chance(1, 2) { r.bytes(len) } else { gen::gen_data(r, Family::Exe, len) };
            let reader = if r.chance(1, 4) {
                Rd::Delta { dist: 1 + r.usize_below(256) }
            } else {
                let (id, _, _) = *r.pick(&crate::props::c02::BCJ_IDS);
                let off = match r.below(4) {
                    0 => 0,
                    1 => r.next_u32(),
                    2 => 0x7FFF_FFFF - r.below(40_000) as u32,
                    _ => 0xFFFF_FFFF - r.below(40_000) as u32,
                };
                Rd::Bcj { id, off }
            };
            Case { reader, input, extra: vec![], class: "filter-any-offset".into(), declared_dict: 0, bufsize, note: String::new() }
        }
        18 => {
            // BCJ2: valid encoding with damage, or random streams and sizes
            let len = r.log_range(1, 20_000) as usize;
            let data = if r.chance(1, 2) { gen::gen_data(r, Family::Exe, len) } else { r.bytes(len).iter().map(|b| if b % 5 == 0 { 0xE8 } else { *b }).collect() };
            let s = crate::bcj2enc::encode(&data, r, 1, 2);
            let mut streams = vec![s.main, s.call, s.jump, s.rc];
            let mut note = String::from("valid encoding");
            if r.chance(2, 3) {
                let k = r.usize_below(4);
                note = format!("stream {k}: {}", mutate(r, &mut streams[k]));
            }
            let size = *r.pick(&[data.len() as u64, data.len() as u64 + 1, 0, 1, u64::MAX, data.len() as u64 / 2]);
            let input = streams.remove(0);
            Case { reader: Rd::Bcj2 { size }, input, extra: streams, class: "bcj2".into(), declared_dict: 0, bufsize, note: format!("{note} size={size}") }
        }
        19..=21 => {
            // grammar-level XZ block headers: valid stream header, then a block header assembled from a
            // small alphabet of meaningful bytes (sizes, filter ids, property sizes), with and without
            // a correct CRC32 - the header is parsed before its CRC is checked
            let check = *r.pick(&[0u8, 1, 4, 10]);
            let mut b = vec![0xFD, b'7', b'z', b'X', b'Z', 0, 0, check];
            let c = walk::crc32(&b[6..8]);
            b.extend_from_slice(&c.to_le_bytes());
            let wmax = if r.chance(1, 8) { 60 } else { 6 };
            let words = 2 + r.usize_below(wmax);
            let hlen = words * 4;
            let alphabet = [0x00u8, 0x01, 0x02, 0x03, 0x04, 0x05, 0x06, 0x07, 0x08, 0x09, 0x0A, 0x0B, 0x21, 0x28, 0x29, 0x40, 0x80, 0xC0, 0xC3, 0xFF, 0x81];
            let mut h = vec![(words - 1) as u8];
            for _ in 1..hlen - 4 {
                h.push(*r.pick(&alphabet));
            }
            if r.chance(1, 2) {
                // trailing part looks like "... filter id, props size" ending exactly at the header end
                let n = h.len();
                let tail = r.pick(&[[0x21u8, 0x01], [0x03, 0x01], [0x04, 0x04], [0x21, 0x00]]);
                h[n - 2] = tail[0];
                h[n - 1] = tail[1];
            }
            match r.below(3) {
                0 => {
                    let crc = walk::crc32(&h);
                    h.extend_from_slice(&crc.to_le_bytes());
                }
                1 => {
                    let crc = r.next_u32();
                    h.extend_from_slice(&crc.to_le_bytes());
                }
                _ => {
                    // no CRC at all: the field grammar runs up to the very last byte of the declared
                    // header (filters are parsed before the CRC is looked at)
                    for _ in 0..4 {
                        h.push(*r.pick(&alphabet));
                    }
                    let n = h.len();
                    let tail = r.pick(&[[0x21u8, 0x01], [0x03, 0x01], [0x04, 0x04], [0x21, 0x00], [0x04, 0x00]]);
                    h[n - 2] = tail[0];
                    h[n - 1] = tail[1];
                    // make the flags byte announce 1-4 filters and no optional sizes more often
                    h[1] = r.below(4) as u8;
                }
            }
            let mut note = format!("header {hlen} bytes");
            if r.chance(1, 2) {
                // structural: a well-formed field sequence (flags, optional sizes, filters) whose LAST
                // filter is cut off at a chosen byte, and the cut is exactly the end of the declared
                // header - every "is there another byte" test of the parser is the last line of defence
                for _try in 0..200 {
                    let nf = 1 + r.usize_below(4);
                    let mut flags = (nf - 1) as u8;
                    let mut body: Vec<u8> = Vec::new();
                    if r.chance(1, 4) {
                        flags |= 0x40;
                        body.extend(vli(r.log_range(1, 1 << 40)));
                    }
                    if r.chance(1, 4) {
                        flags |= 0x80;
                        body.extend(vli(r.log_range(1, 1 << 40)));
                    }
                    let mut last_start = 0usize;
                    for k in 0..nf {
                        last_start = body.len();
                        let last = k + 1 == nf;
                        match if last { r.below(4) } else { r.below(3) } {
                            0 => {
                                body.push(4 + r.below(8) as u8);
                                if r.chance(1, 2) {
                                    body.push(0);
                                } else {
                                    body.push(4);
                                    body.extend(r.bytes(4));
                                }
                            }
                            1 => body.extend([0x03, 0x01, r.below(256) as u8]),
                            2 => body.extend([0x21, 0x01, r.below(41) as u8]),
                            _ => body.extend([0x21, 0x01, 0x28]),
                        }
                    }
                    // cut inside the last filter (at least its id stays)
                    let item = body.len() - last_start;
                    let keep = 1 + r.usize_below(item);
                    body.truncate(last_start + keep);
                    let total = 2 + body.len(); // size byte + flags + fields
                    if total % 4 != 0 || !(8..=1024).contains(&total) {
                        continue;
                    }
                    h = vec![(total / 4 - 1) as u8, flags];
                    h.extend_from_slice(&body);
                    note = format!("structural header {total} bytes, {nf} filters, last filter cut after {keep} of {item} bytes");
                    break;
                }
            }
            b.extend_from_slice(&h);
            let n = r.usize_below(64);
            b.extend(r.bytes(n));
            let reader = Rd::Xz { multi: r.chance(1, 2) };
            let d = declared_for(&reader, &b);
            Case { reader, input: b, extra: vec![], class: "xz-block-header-grammar".into(), declared_dict: d, bufsize, note }
        }
        22 => {
            // readers that are given a preset dictionary (smaller than, equal to and larger than the
            // dictionary): a valid stream made with the same preset, damaged or not, a hand-made
            // stream without dictionary reset, or random bytes
            let dict = *r.pick(&[4096u32, 8192]);
            let d = dict as usize;
            let preset = *r.pick(&[1usize, d / 2, d - 1, d, d + 1, d + 1000]);
            let lzma1 = r.chance(1, 3);
            let pd = vec![b'p'; preset];
            let len = r.log_range(1, 20_000) as usize;
            let data = gen::gen_data(r, Family::Text, len);
            let mut o = fast(dict);
            o.preset_dict = Some(pd);
            let mut input = match r.below(4) {
                0 => vec![0x02, 0x00, 0x04, b'h', b'e', b'l', b'l', b'o', 0x00],
                1 => r.bytes(200),
                _ => {
                    let c = if lzma1 { Container::LzmaRawMarker } else { Container::Lzma2 { chunk: None } };
                    encode(&Spec { c, o: o.clone() }, &data, &[data.len()], 0).unwrap_or_default()
                }
            };
            let mut note = format!("preset dictionary of {preset} bytes, dict {dict}");
            if r.chance(1, 2) && !input.is_empty() {
                note = format!("{note}; {}", mutate(r, &mut input));
            }
            let reader = if lzma1 {
                Rd::LzmaPreset { dict, preset, size: *r.pick(&[u64::MAX, len as u64, 10]) }
            } else {
                Rd::Lzma2Preset { dict, preset, mt: r.chance(1, 4) }
            };
            Case { reader, input, extra: vec![], class: "preset-dictionary".into(), declared_dict: dict as u64 + preset as u64, bufsize, note }
        }
        _ => {
            // valid streams concatenated / nested garbage
            let (a, _) = valid_stream(r, Container::Xz { check: 1, block: None, filters: vec![] }, 1000);
            let (b, _) = valid_stream(r, Container::Lzip { member: None }, 1000);
            let mut input = if r.chance(1, 2) { a.clone() } else { b.clone() };
            input.extend_from_slice(if r.chance(1, 2) { &a } else { &b });
            let pad = vec![0u8; r.usize_below(9)];
            input.extend_from_slice(&pad);
            let reader = random_reader(r, &input);
            let d = declared_for(&reader, &input);
            Case { reader, input, extra: vec![], class: "concatenated".into(), declared_dict: d, bufsize, note: String::new() }
        }
    };
    if let Rd::Bcj2 { .. } = c.reader {
        if c.extra.len() != 3 {
            c.extra = vec![r.bytes(100), r.bytes(100), r.bytes(100)];
        }
    }
    c
}

fn random_reader(r: &mut Rng, _input: &[u8]) -> Rd {
    match r.below(12) {
        0 => Rd::LzmaHeader { mem_limit_kb: *r.pick(&[0u32, 1 << 10, 1 << 19]) },
        1 => Rd::LzmaProps { props: r.below(226) as u8, dict: *r.pick(&[0u32, 4096, 1 << 20]), size: *r.pick(&[0u64, 10, 5000, u64::MAX]) },
        2 => Rd::LzmaLcLpPb { lc: 3, lp: 0, pb: 2, dict: 4096, size: u64::MAX },
        3 => Rd::Lzma2 { dict: *r.pick(&LZMA2_DICTS) },
        4 => Rd::Xz { multi: false },
        5 => Rd::Xz { multi: true },
        6 => Rd::Lzip,
        7 => Rd::LzipMt { workers: 2 },
        8 => Rd::Lzma2Mt { dict: 4096, workers: 2 },
        9 => Rd::Bcj { id: r.pick(&crate::props::c02::BCJ_IDS).0, off: r.next_u32() },
        10 => Rd::Delta { dist: 1 + r.usize_below(256) },
        _ => Rd::Bcj2 { size: r.log_range(1, 1 << 20) },
    }
}

fn declared_for(reader: &Rd, input: &[u8]) -> u64 {
    match reader {
        Rd::LzmaHeader { mem_limit_kb } => {
            if input.len() >= 5 {
                let d = u32::from_le_bytes([input[1], input[2], input[3], input[4]]);
                lzma_dict_round(d).min(*mem_limit_kb as u64 * 1024)
            } else {
                4096
            }
        }
        Rd::LzmaProps { dict, size, .. } | Rd::LzmaLcLpPb { dict, size, .. } => {
            if *size <= u64::MAX / 2 {
                lzma_dict_round(*dict).min(lzma_dict_round((*size).min(u32::MAX as u64) as u32))
            } else {
                lzma_dict_round(*dict)
            }
        }
        Rd::Lzma2 { dict } | Rd::Lzma2Mt { dict, .. } => *dict as u64,
        Rd::Xz { .. } => xz_declared(input),
        Rd::Lzip | Rd::LzipMt { .. } => lzip_declared(input),
        _ => 0,
    }
}

pub fn make_case(ctx: &Ctx, idx: u64) -> Case {
    let mut r = ctx.rng(idx);
    if idx < STEER {
        steer_case(ctx, idx, &mut r)
    } else {
        random_case(ctx, &mut r)
    }
}

fn unsafe_static_slice(b: &Vec<u8>) -> &'static [u8] {
    // SAFETY: the Vec is owned by the closure that also owns the reader and outlives it.
    unsafe { std::slice::from_raw_parts(b.as_ptr(), b.len()) }
}

/// Outcome of driving one reader over the input: calls made, bytes produced, first error.
struct Run {
    produced: u64,
    first_err: Option<String>,
    calls: u64,
    stopped_by_cap: bool,
}

fn drive<R: Read>(mut rd: R, bufsize: usize, cap: u64) -> Run {
    let mut buf = vec![0u8; bufsize.max(1)];
    let mut run = Run { produced: 0, first_err: None, calls: 0, stopped_by_cap: false };
    let mut interrupted = 0;
    loop {
        run.calls += 1;
        match rd.read(&mut buf) {
            Ok(0) => break,
            Ok(n) => {
                run.produced += n as u64;
                if run.produced > cap {
                    run.stopped_by_cap = true;
                    break;
                }
            }
            Err(e) if e.kind() == std::io::ErrorKind::Interrupted && interrupted < 8 => interrupted += 1,
            Err(e) => {
                run.first_err = Some(format!("{:?}:{}", e.kind(), e));
                break;
            }
        }
    }
    // reads after the end / after an error must return as well
    for _ in 0..3 {
        run.calls += 1;
        let _ = rd.read(&mut buf);
    }
    run
}

pub fn run_case(ctx: &Ctx, idx: u64) -> Vec<CaseOut> {
    let case = make_case(ctx, idx);
    let rname = case.reader.name();
    let cell_base = format!("{rname}|{}", case.class);
    let desc = format!(
        "{rname} {:?} class={} note=[{}] input={} buf={}",
        case.reader,
        case.class,
        case.note,
        short(&case.input),
        case.bufsize
    );
    let cap: u64 = if ctx.slow() { 1 << 20 } else { 256 << 20 };
    let input = case.input.clone();
    let extra = case.extra.clone();
    let reader = case.reader.clone();
    let bufsize = case.bufsize;
    let is_mt = matches!(reader, Rd::LzipMt { .. } | Rd::Lzma2Mt { .. });
    let dbg = if ctx.is("dbg") {
        " [dbg]"
    } else if ctx.is("dbg0") {
        " [dbg0]"
    } else {
        ""
    };

    // workers of an earlier MT case must not allocate inside this case's window
    mt::wait_quiet();
    let baseline = alloc::window_begin();
    let work = move || -> Run {
        match reader {
            Rd::LzmaHeader { mem_limit_kb } => match LZMAReader::new_mem_limit(input.as_slice(), mem_limit_kb, None) {
                Ok(rd) => drive(rd, bufsize, cap),
                Err(e) => Run { produced: 0, first_err: Some(format!("ctor {:?}:{}", e.kind(), e)), calls: 0, stopped_by_cap: false },
            },
            Rd::LzmaProps { props, dict, size } => match LZMAReader::new_with_props(input.as_slice(), size, props, dict, None) {
                Ok(rd) => drive(rd, bufsize, cap),
                Err(e) => Run { produced: 0, first_err: Some(format!("ctor {:?}:{}", e.kind(), e)), calls: 0, stopped_by_cap: false },
            },
            Rd::LzmaLcLpPb { lc, lp, pb, dict, size } => match LZMAReader::new(input.as_slice(), size, lc, lp, pb, dict, None) {
                Ok(rd) => drive(rd, bufsize, cap),
                Err(e) => Run { produced: 0, first_err: Some(format!("ctor {:?}:{}", e.kind(), e)), calls: 0, stopped_by_cap: false },
            },
            Rd::Lzma2 { dict } => drive(LZMA2Reader::new(input.as_slice(), dict, None), bufsize, cap),
            Rd::Lzma2Preset { dict, preset, mt } => {
                let pd = vec![b'p'; preset];
                if mt {
                    drive(LZMA2ReaderMT::new(input.as_slice(), dict, Some(&pd), 2), bufsize, cap)
                } else {
                    drive(LZMA2Reader::new(input.as_slice(), dict, Some(&pd)), bufsize, cap)
                }
            }
            Rd::LzmaPreset { dict, preset, size } => {
                let pd = vec![b'p'; preset];
                match LZMAReader::new_with_props(input.as_slice(), size, 0x5D, dict, Some(&pd)) {
                    Ok(rd) => drive(rd, bufsize, cap),
                    Err(e) => Run { produced: 0, first_err: Some(format!("ctor {:?}:{}", e.kind(), e)), calls: 0, stopped_by_cap: false },
                }
            }
            Rd::Xz { multi } => drive(XZReader::new(input.as_slice(), multi), bufsize, cap),
            Rd::Lzip => match LZIPReader::new(input.as_slice()) {
                Ok(rd) => drive(rd, bufsize, cap),
                Err(e) => Run { produced: 0, first_err: Some(format!("ctor {:?}:{}", e.kind(), e)), calls: 0, stopped_by_cap: false },
            },
            Rd::LzipMt { workers } => {
                // logical step bound on the (seekable) source
                let budget = 400_000 + 64 * input.len();
                let (src, flag) = crate::fio::FaultyRead::new(unsafe_static_slice(&input), crate::fio::ReadPlan::default()).with_budget(budget);
                let run = match LZIPReaderMT::new(src, workers) {
                    Ok(rd) => drive(rd, bufsize, cap),
                    Err(e) => Run { produced: 0, first_err: Some(format!("ctor {:?}:{}", e.kind(), e)), calls: 0, stopped_by_cap: false },
                };
                if flag.load(std::sync::atomic::Ordering::SeqCst) {
                    Run { produced: run.produced, first_err: Some("UNBOUNDED-SOURCE-CALLS".into()), calls: budget as u64, stopped_by_cap: false }
                } else {
                    run
                }
            }
            Rd::Lzma2Mt { dict, workers } => drive(LZMA2ReaderMT::new(input.as_slice(), dict, None, workers), bufsize, cap),
            Rd::Bcj { id, off } => drive(mk_bcj_reader(id, input.as_slice(), off as usize), bufsize, cap),
            Rd::Delta { dist } => drive(DeltaReader::new(input.as_slice(), dist), bufsize, cap),
            Rd::Bcj2 { size } => {
                let inputs: Vec<Cursor<Vec<u8>>> = vec![Cursor::new(input), Cursor::new(extra[0].clone()), Cursor::new(extra[1].clone()), Cursor::new(extra[2].clone())];
                drive(BCJ2Reader::new(inputs, size), bufsize, cap)
            }
        }
    };
    let outcome: Result<Run, CaseOut> = if is_mt || !mt::is_miri() {
        match mt::guarded(5000, 180_000, work) {
            Guarded::Done(r) => Ok(r),
            Guarded::Panicked(p) => Err(CaseOut::viol(cell_base.clone(), format!("panic {rname} @{}{dbg}", p.site()), p.short_msg(), desc.clone())),
            Guarded::Stuck(w) => Err(CaseOut::viol(cell_base.clone(), format!("never-returns {rname} {}", case.class), w, desc.clone())),
            Guarded::Timeout => Err(CaseOut::skip(cell_base.clone(), "watchdog without stuck predicate (inconclusive)", desc.clone())),
        }
    } else {
        match catch(work) {
            Ok(r) => Ok(r),
            Err(p) => Err(CaseOut::viol(cell_base.clone(), format!("panic {rname} @{}{dbg}", p.site()), p.short_msg(), desc.clone())),
        }
    };
    let (peak, largest) = alloc::window_peak(baseline);
    // panics on library worker threads do not unwind into the caller
    let tp = crate::case::take_thread_panics();
    let mut out = Vec::new();
    let run = match outcome {
        Ok(r) => r,
        Err(c) => {
            out.push(c);
            return out;
        }
    };
    if is_mt {
        if let Some(p) = tp.iter().find(|p| !p.loc.contains("harness")) {
            out.push(CaseOut::viol(cell_base.clone(), format!("worker-panic {rname} @{}{dbg}", p.site()), p.short_msg(), desc.clone()));
        }
    }
    if run.first_err.as_deref() == Some("UNBOUNDED-SOURCE-CALLS") {
        out.push(CaseOut::viol(
            cell_base.clone(),
            format!("unbounded-work {rname} ({})", case.class),
            format!("more than {} source calls for {} input bytes", run.calls, case.input.len()),
            desc.clone(),
        ));
        return out;
    }
    // memory clause
    let allowed = case.declared_dict + (8 << 20) + 64 * (case.input.len() as u64 + case.extra.iter().map(|e| e.len() as u64).sum::<u64>()) + bufsize as u64;
    stat_max("largest_peak_bytes", peak);
    if peak > allowed {
        // MT readers hold complete decoded units in memory: explained by the output volume
        let sig = if is_mt && peak <= allowed + 3 * run.produced {
            format!("memory {rname} buffers-whole-decoded-units")
        } else {
            format!("memory {rname} above-bound ({})", case.class)
        };
        out.push(CaseOut::viol(
            cell_base.clone(),
            sig,
            format!(
                "peak {} B (largest block {} B) > allowed {} B = declared dict {} + 8 MiB + 64 x input {}; produced {} B",
                peak,
                largest,
                allowed,
                case.declared_dict,
                case.input.len(),
                run.produced
            ),
            desc.clone(),
        ));
    }
    stat_add("read_calls", run.calls);
    if run.first_err.is_some() {
        stat_add("cases_ending_in_err", 1);
    } else {
        stat_add("cases_ending_in_ok", 1);
    }
    if run.stopped_by_cap {
        stat_add("stopped_by_output_cap", 1);
    }
    if out.is_empty() {
        let errclass: String = run
            .first_err
            .as_deref()
            .map(|e| e.chars().filter(|c| !c.is_ascii_digit()).take(48).collect())
            .unwrap_or_else(|| "Ok".into());
        out.push(CaseOut::held(format!("{cell_base}|{errclass}"), run.first_err.is_some() || run.produced > 0, desc));
    }
    out
}

pub fn describe(ctx: &Ctx, idx: u64) -> (String, String, String, String) {
    let c = make_case(ctx, idx);
    (
        c.reader.name(),
        c.class.clone(),
        format!("{}|{}", c.reader.name(), c.class),
        format!("{:?} class={} note=[{}] input={}", c.reader, c.class, c.note, short(&c.input)),
    )
}
