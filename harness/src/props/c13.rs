//! C13 - compressed output is a pure function of input and options.

use crate::alloc;
use crate::case::{catch, set_insert, stat_add, CaseOut, Ctx};
use crate::gen::{self, Family};
use crate::mt::{self, Guarded};
use crate::ours::{encode, Container, Spec};
use crate::props::c02;
use crate::util::{first_diff, hash64, Rng};

pub const STEER: u64 = 12;

pub fn n_cases(ctx: &Ctx) -> u64 {
    let base = match (ctx.variant.as_str(), ctx.thorough()) {
        ("miri", false) => 24,
        ("miri", true) => 600,
        ("vg", false) => 24,
        ("vg", true) => 300,
        ("tsan", false) => 60,
        ("tsan", true) => 800,
        (_, false) => 1500,
        (_, true) => 25_000,
    };
    STEER + ctx.scaled(base)
}

fn churn(r: &mut Rng) {
    // perturb the allocator state between runs
    let mut keep: Vec<Vec<u8>> = Vec::new();
    for _ in 0..(8 + r.usize_below(40)) {
        let n = r.log_range(16, 300_000) as usize;
        keep.push(vec![r.next_u32() as u8; n]);
        if r.chance(1, 2) && !keep.is_empty() {
            let i = r.usize_below(keep.len());
            keep.swap_remove(i);
        }
    }
}

/// Write partitions (no flushes) whose boundaries and tiny writes sit around the position at which
/// the encoder's window moves: the compressed bytes must equal the single-write output.
fn slide_case(idx: u64, r: &mut Rng) -> Vec<CaseOut> {
    use crate::props::c07;
    let comps = c07::slide_components();
    let c = comps[idx as usize % comps.len()].clone();
    let spec = Spec { c: c.clone(), o: c07::slide_opts(r) };
    let cname = format!("{}[window-slide]", c.name());
    let cell = format!("{cname}|partition");
    let (data, edge, _e2, plans) = match c07::slide_setup(&spec, &cname, &cell, r) {
        Ok(x) => x,
        // a failing or panicking probing encode is judged by C07/C01
        Err(o) => return vec![CaseOut::skip(cell, "probing encode failed (judged by C07)", o.desc)],
    };
    let reference = match catch(|| encode(&spec, &data, &[data.len()], 0)) {
        Ok(Ok(b)) => b,
        _ => return vec![CaseOut::skip(cell, "single-write encode failed (judged by C01/C02)", spec.desc())],
    };
    let mut out = Vec::new();
    for (what, partition, flush_every) in plans {
        if flush_every != 0 {
            continue;
        }
        stat_add("partitions", 1);
        stat_add("window_slide_partitions", 1);
        let desc = format!("{} len={} window moved in the write at {edge}: {what}", spec.desc(), data.len());
        match catch(|| encode(&spec, &data, &partition, 0)) {
            Ok(Ok(b)) => {
                if b != reference {
                    out.push(CaseOut::viol(cell.clone(), format!("partition-changes-output {cname}"), first_diff(&b, &reference), desc));
                } else {
                    out.push(CaseOut::held(cell.clone(), true, desc));
                }
            }
            Ok(Err(e)) => out.push(CaseOut::viol(cell.clone(), format!("enc-err {cname} {e}"), "", desc)),
            Err(_) => out.push(CaseOut::skip(cell.clone(), "encode panicked (judged by C07)", desc)),
        }
    }
    out
}

pub fn run_case(ctx: &Ctx, idx: u64) -> Vec<CaseOut> {
    let mut r = ctx.rng(idx);
    let tiny = ctx.slow();
    let kind = if idx < STEER { idx } else { r.below(9) };
    if kind >= 8 {
        if tiny || ctx.is("tsan") {
            // 1 MB encodes are out of reach of the interpreters; the single-threaded writers have no threads to race
            return vec![CaseOut::skip("window-slide|partition", "not run under this variant", "")];
        }
        return slide_case(idx, &mut r);
    }
    let lzma1 = kind == 0;
    let mut o = gen::gen_lzma_opts(&mut r, !lzma1, false);
    if tiny {
        o.dict_size = 4096;
        o.nice_len = 16;
    }
    let unit = *r.pick(&[4096u64, 8192, 65536, 100_000]);
    let (c, partition_free): (Container, bool) = match kind {
        0 => (r.pick(&[Container::LzmaHeaderMarker, Container::LzmaHeaderSized, Container::LzmaRawMarker, Container::LzmaRawSized]).clone(), true),
        1 => (Container::Lzma2 { chunk: None }, true),
        2 => (Container::Lzma2 { chunk: Some(unit) }, false),
        3 => {
            let filters = if r.chance(1, 2) { c02::gen_filters(&mut r) } else { vec![] };
            (Container::Xz { check: *r.pick(&[0u8, 1, 4, 10]), block: None, filters }, true)
        }
        4 => (Container::Xz { check: 4, block: Some(unit), filters: vec![] }, false),
        5 => (Container::Lzip { member: if r.chance(1, 2) { None } else { Some(unit) } }, true),
        6 => (Container::Lzma2Mt { chunk: unit, workers: 1 }, true),
        _ => (Container::LzipMt { member: unit, workers: 1 }, true),
    };
    if matches!(c, Container::Lzma2Mt { .. } | Container::LzipMt { .. }) {
        o.preset_dict = None;
    }
    if matches!(c, Container::Lzip { .. } | Container::LzipMt { .. }) {
        o.dict_size = o.dict_size.clamp(4096, 1 << 22);
    }
    let is_mt = matches!(c, Container::Lzma2Mt { .. } | Container::LzipMt { .. });
    let max = if tiny { 2000 } else if ctx.thorough() { 1 << 20 } else { 300_000 };
    let len = gen::gen_len(&mut r, max, o.dict_size).min(max);
    let fam = if len == 0 { Family::Empty } else { *r.pick(&gen::BULK_FAMILIES) };
    let compressible = r.chance(2, 3);
    let data = if is_mt { mt::stamped_data(&mut r, len, unit as usize, compressible) } else { gen::gen_data(&mut r, fam, len) };
    let spec = Spec { c: c.clone(), o };
    let cname = c.name();
    let desc0 = format!("{} fam={} len={}", match &c {
        Container::Xz { check, block, filters } => format!("Xz check={check} block={block:?} filters={} {}", c02::filters_desc(filters), gen::opts_desc(&spec.o)),
        _ => spec.desc(),
    }, fam.name(), data.len());

    // reference: single write, poison pattern A
    alloc::set_poison(true, 0xA5);
    let reference = {
        let sp = spec.clone();
        let d = data.clone();
        match mt::guarded(8000, 300_000, move || encode(&sp, &d, &[d.len()], 0)) {
            Guarded::Done(Ok(b)) => b,
            Guarded::Done(Err(e)) => {
                alloc::set_poison(false, 0);
                return vec![CaseOut::skip(format!("{cname}|reference"), format!("encode failed: {e} (judged by C01/C02)"), desc0)];
            }
            _ => {
                alloc::set_poison(false, 0);
                return vec![CaseOut::skip(format!("{cname}|reference"), "encode panicked or hung (judged by C01/C02/C09)", desc0)];
            }
        }
    };
    set_insert("distinct_outputs", hash64(&reference));
    let mut out = Vec::new();

    // (a) repetition with a different poison pattern and a perturbed heap
    {
        churn(&mut r);
        alloc::set_poison(true, 0x3C);
        let sp = spec.clone();
        let d = data.clone();
        let again = mt::guarded(8000, 300_000, move || encode(&sp, &d, &[d.len()], 0));
        let cell = format!("{cname}|repeat+poison");
        stat_add("repetitions", 1);
        match again {
            Guarded::Done(Ok(b)) => {
                if b != reference {
                    out.push(CaseOut::viol(cell, format!("run-to-run-difference {cname}"), first_diff(&b, &reference), format!("{desc0}: second run with poison 0x3C and heap churn")));
                } else {
                    out.push(CaseOut::held(cell, !data.is_empty(), format!("{desc0}: identical {} bytes on repetition", b.len())));
                }
            }
            _ => out.push(CaseOut::skip(cell, "second run failed", desc0.clone())),
        }
    }
    alloc::set_poison(false, 0);

    // (b) write partitions
    if partition_free {
        let nparts = if tiny { 2 } else { 6 };
        for pi in 0..nparts {
            let partition = gen::gen_partition(&mut r, data.len());
            let nonempty = partition.iter().filter(|&&n| n > 0).count();
            let exposed = matches!(&c, Container::Xz { filters, .. } if c02::bcj_multi_write_exposed(filters, nonempty));
            let tag = if exposed { "[bcj-filter+multi-write]" } else { "" };
            let cell = format!("{cname}|partition");
            let desc = format!("{desc0}: partition#{pi} {} writes first={:?}", partition.len(), &partition[..partition.len().min(6)]);
            let sp = spec.clone();
            let d = data.clone();
            let p2 = partition.clone();
            stat_add("partitions", 1);
            match mt::guarded(8000, 300_000, move || encode(&sp, &d, &p2, 0)) {
                Guarded::Done(Ok(b)) => {
                    if b != reference {
                        out.push(CaseOut::viol(cell, format!("partition-changes-output {cname}{tag}"), first_diff(&b, &reference), desc));
                    } else {
                        out.push(CaseOut::held(cell, partition.len() > 1, desc));
                    }
                }
                Guarded::Done(Err(e)) => out.push(CaseOut::viol(cell, format!("enc-err {cname}{tag} {e}"), "", desc)),
                _ => out.push(CaseOut::skip(cell, "encode panicked or hung (judged elsewhere)", desc)),
            }
        }
    }

    // (c) MT: worker counts and schedules
    if is_mt {
        let counts: &[u32] = if tiny { &[2, 3] } else { &[2, 5, 16, 3] };
        for &w in counts {
            let c2 = match &c {
                Container::Lzma2Mt { chunk, .. } => Container::Lzma2Mt { chunk: *chunk, workers: w },
                Container::LzipMt { member, .. } => Container::LzipMt { member: *member, workers: w },
                x => x.clone(),
            };
            let sched = mt::random_sched(&mut r);
            mt::observe_begin();
            let sp = Spec { c: c2, o: spec.o.clone() };
            let d = data.clone();
            let part = if r.chance(1, 2) { vec![d.len()] } else { gen::gen_partition(&mut r, d.len()) };
            let res = mt::guarded(8000, 300_000, move || encode(&sp, &d, &part, 0));
            let obs = mt::observe_end();
            mt::no_sched();
            stat_add("mt_runs", 1);
            if obs.out_of_order_completions > 0 {
                stat_add("out_of_order_runs", 1);
            }
            set_insert("schedule_hashes", obs.sched_hash);
            let cell = format!("{cname}|workers+schedule");
            let desc = format!("{desc0}: workers={w} sched=[{sched}] completion={:?}", &obs.completion_order[..obs.completion_order.len().min(10)]);
            match res {
                Guarded::Done(Ok(b)) => {
                    if b != reference {
                        out.push(CaseOut::viol(cell, format!("schedule-or-workers-change-output {cname}"), first_diff(&b, &reference), desc));
                    } else {
                        out.push(CaseOut::held(cell, obs.completion_order.len() > 1, desc));
                    }
                }
                Guarded::Done(Err(e)) => out.push(CaseOut::viol(cell, format!("enc-err {cname} {e}"), "", desc)),
                _ => out.push(CaseOut::skip(cell, "encode panicked or hung (judged by C08/C09)", desc)),
            }
        }
    }
    // (d) MT with flushes: a flush dispatches a partly filled unit, so the output depends on WHERE
    // the caller flushes - but for one and the same call sequence it must not depend on the number
    // of workers, on which worker gets which unit, or on the schedule
    if is_mt && !tiny && !data.is_empty() {
        // a handful of writes only: every flush costs a whole encoder set-up in a worker
        let pieces = 2 + r.usize_below(6);
        let mut cuts: Vec<usize> = (0..pieces - 1).map(|_| r.usize_below(data.len() + 1)).collect();
        cuts.sort_unstable();
        let mut partition = Vec::new();
        let mut prev = 0usize;
        for c in cuts {
            partition.push(c - prev);
            prev = c;
        }
        partition.push(data.len() - prev);
        let flush_every = 1 + r.usize_below(2);
        let mut reference_f: Option<Vec<u8>> = None;
        for &w in &[1u32, 2, 4, 1, 3] {
            let c2 = match &c {
                Container::Lzma2Mt { chunk, .. } => Container::Lzma2Mt { chunk: *chunk, workers: w },
                Container::LzipMt { member, .. } => Container::LzipMt { member: *member, workers: w },
                x => x.clone(),
            };
            let sched = if reference_f.is_none() { mt::no_sched(); String::from("none") } else { mt::random_sched(&mut r) };
            let sp = Spec { c: c2, o: spec.o.clone() };
            let d = data.clone();
            let part = partition.clone();
            let res = mt::guarded(8000, 300_000, move || encode(&sp, &d, &part, flush_every));
            mt::no_sched();
            stat_add("mt_runs_with_flushes", 1);
            let cell = format!("{cname}|workers+schedule|flushes");
            let desc = format!("{desc0}: {} writes, flush after every {flush_every}. write, workers={w} sched=[{sched}]", partition.len());
            match res {
                Guarded::Done(Ok(b)) => match &reference_f {
                    None => reference_f = Some(b),
                    Some(rf) => {
                        if &b != rf {
                            out.push(CaseOut::viol(cell, format!("schedule-or-workers-change-output {cname} [with-flushes]"), first_diff(&b, rf), desc));
                        } else {
                            out.push(CaseOut::held(cell, partition.len() > 1, desc));
                        }
                    }
                },
                Guarded::Done(Err(e)) => out.push(CaseOut::viol(cell, format!("enc-err {cname} [with-flushes] {e}"), "", desc)),
                _ => out.push(CaseOut::skip(cell, "encode panicked or hung (judged by C08/C09)", desc)),
            }
        }
    }
    let _ = catch(|| ());
    out
}

