//! C12 - concatenated XZ streams and LZIP members decode to the concatenated data.

use std::io::Cursor;

use lzma_rust2::{EncodeMode, LZMAOptions, MFType, XZReader};

use crate::case::{catch, stat_add, CaseOut, Ctx};
use crate::fio::{drain, FaultyRead, ReadPlan};
use crate::gen::{self, Family};
use crate::ours::{decode_lzip_mt, encode, Container, Spec};
use crate::util::{first_diff, Rng};

pub const STEER: u64 = 12;

pub fn n_cases(ctx: &Ctx) -> u64 {
    let base = match (ctx.variant.as_str(), ctx.thorough()) {
        ("dbg", false) => 400,
        ("dbg", true) => 5000,
        (_, false) => 12000,
        (_, true) => 60_000,
    };
    STEER + ctx.scaled(base)
}

fn opts(r: &mut Rng) -> LZMAOptions {
    let mode = if r.chance(1, 2) { EncodeMode::Fast } else { EncodeMode::Normal };
    let mf = if r.chance(1, 2) { MFType::HC4 } else { MFType::BT4 };
    LZMAOptions::new(*r.pick(&[4096u32, 65536, 1 << 20]), *r.pick(&[0u32, 3, 4]), 0, *r.pick(&[0u32, 2, 4]), mode, 32, mf, 0)
}

fn part_data(r: &mut Rng) -> Vec<u8> {
    let len = match r.below(5) {
        0 => 0,
        1 => 1,
        _ => r.log_range(1, 30_000) as usize,
    };
    let fam = *r.pick(&[Family::Text, Family::Exe, Family::Random, Family::EditRepeat]);
    gen::gen_data(r, fam, len)
}

fn xz_case(ctx: &Ctx, idx: u64, r: &mut Rng) -> Vec<CaseOut> {
    let _ = ctx;
    let n = if idx < STEER { 2 + (idx % 3) as usize } else { 1 + r.usize_below(8) };
    let mut file = Vec::new();
    let mut all = Vec::new();
    let mut first_len = 0usize;
    let mut first_end = 0usize;
    // padding plan
    #[derive(Debug, Clone, Copy, PartialEq)]
    enum Pad {
        Valid(usize),
        BadLength(usize),
        NonZero(usize),
    }
    let mut pads: Vec<Pad> = Vec::new();
    let invalid_at = if idx >= STEER && r.chance(1, 3) { Some(r.usize_below(n)) } else { None };
    let mut makers = Vec::new();
    for i in 0..n {
        let d = part_data(r);
        let check = *r.pick(&[0u8, 1, 4, 10]);
        let use_ref = cfg!(feature = "ref") && r.chance(1, 3);
        let bytes: Vec<u8> = if use_ref {
            #[cfg(feature = "ref")]
            {
                let ro = crate::refimpl::RefLzma { dict: Some(65536), ..crate::refimpl::RefLzma::preset(r.below(4) as u32) };
                crate::refimpl::encode_xz(&d, &[], &ro, check, &[]).unwrap_or_default()
            }
            #[cfg(not(feature = "ref"))]
            {
                Vec::new()
            }
        } else {
            let block = if r.chance(1, 3) { Some(4096u64) } else { None };
            let part = vec![4096usize; d.len() / 4096 + 1];
            encode(&Spec { c: Container::Xz { check, block, filters: vec![] }, o: opts(r) }, &d, &part, 0).unwrap_or_default()
        };
        makers.push(if use_ref { "liblzma" } else { "own" });
        file.extend_from_slice(&bytes);
        if i == 0 {
            first_len = d.len();
            first_end = file.len();
        }
        all.extend_from_slice(&d);
        // padding after this stream (also after the last one)
        let pad = if invalid_at == Some(i) {
            if r.chance(1, 2) {
                Pad::BadLength(*r.pick(&[1usize, 2, 3, 5, 6, 7, 9, 1023]))
            } else {
                Pad::NonZero(*r.pick(&[4usize, 8, 16]))
            }
        } else {
            Pad::Valid(*r.pick(&[0usize, 0, 4, 8, 12, 16, 64, 1024]))
        };
        match pad {
            Pad::Valid(k) | Pad::BadLength(k) => file.extend(std::iter::repeat(0u8).take(k)),
            Pad::NonZero(k) => {
                let mut p = vec![0u8; k];
                let j = r.usize_below(k);
                p[j] = 1 + r.below(255) as u8;
                // a byte equal to the first magic byte inside padding is garbage too
                file.extend_from_slice(&p);
            }
        }
        pads.push(pad);
    }
    // a BadLength pad after the LAST stream is only invalid if the total is not a multiple of four
    let invalid = pads.iter().enumerate().any(|(i, p)| match p {
        Pad::BadLength(k) => k % 4 != 0 || i + 1 < n,
        Pad::NonZero(_) => true,
        Pad::Valid(_) => false,
    });
    let sizes: Vec<usize> = gen::gen_read_sizes(r).into_iter().filter(|&s| s > 0).collect();
    let cell = format!("xz|n{}|{}|{}", n.min(4), if invalid { "invalid-padding" } else { "valid-padding" }, if makers.contains(&"liblzma") { "mixed-makers" } else { "own" });
    let desc = format!("XZ {n} streams makers={makers:?} pads={pads:?} total={}B content={}B readbuf={:?}", file.len(), all.len(), &sizes[..sizes.len().min(3)]);
    let mut out = Vec::new();
    stat_add("xz_streams", n as u64);
    // multi-stream on
    let cap = all.len() + (1 << 20);
    let short_plan = match r.below(3) {
        0 => ReadPlan::default(),
        1 => ReadPlan::one_byte(),
        _ => ReadPlan { short: vec![3, 1, 2, 5], ..Default::default() },
    };
    match catch(|| {
        let mut rd = XZReader::new(FaultyRead::new(&file, short_plan.clone()), true);
        drain(&mut rd, &sizes, cap, 4)
    }) {
        Err(p) => out.push(CaseOut::viol(cell.clone(), format!("panic XZReader(multi) @{}", p.site()), p.short_msg(), desc.clone())),
        Ok(d) => {
            if invalid {
                if d.is_ok() {
                    out.push(CaseOut::viol(
                        cell.clone(),
                        "malformed-padding-accepted XZReader(multi)",
                        format!("Ok with {} bytes", d.out.len()),
                        desc.clone(),
                    ));
                }
            } else if !d.is_ok() {
                out.push(CaseOut::viol(
                    cell.clone(),
                    format!("multi-stream-rejected XZReader(multi) {}", d.err_string()),
                    format!("after {} of {} bytes", d.out.len(), all.len()),
                    desc.clone(),
                ));
            } else if d.out != all {
                out.push(CaseOut::viol(cell.clone(), "multi-stream-mismatch XZReader(multi)", first_diff(&d.out, &all), desc.clone()));
            }
        }
    }
    // multi-stream off: only the first stream, source left right behind it
    match catch(|| {
        let src = FaultyRead::new(&file, ReadPlan::default());
        let mut rd = XZReader::new(src, false);
        let d = drain(&mut rd, &sizes, cap, 4);
        let rest = rd.into_inner();
        (d, rest.pos)
    }) {
        Err(p) => out.push(CaseOut::viol(cell.clone(), format!("panic XZReader(single) @{}", p.site()), p.short_msg(), desc.clone())),
        Ok((d, pos)) => {
            if !d.is_ok() {
                out.push(CaseOut::viol(cell.clone(), format!("single-stream-mode-fails XZReader {}", d.err_string()), "", desc.clone()));
            } else if d.out != all[..first_len] {
                out.push(CaseOut::viol(
                    cell.clone(),
                    "single-stream-mode-returns-more-than-first-stream XZReader",
                    format!("returned {} bytes, first stream holds {}", d.out.len(), first_len),
                    desc.clone(),
                ));
            } else if pos != first_end {
                out.push(CaseOut::viol(
                    cell.clone(),
                    "single-stream-mode-source-position XZReader",
                    format!("source at {pos}, first stream ends at {first_end}"),
                    desc.clone(),
                ));
            }
        }
    }
    if out.is_empty() {
        out.push(CaseOut::held(cell, n > 1, desc));
    }
    out
}

fn lzip_case(ctx: &Ctx, idx: u64, r: &mut Rng) -> Vec<CaseOut> {
    let _ = (ctx, idx);
    let n = 1 + r.usize_below(8);
    let mut file = Vec::new();
    let mut all = Vec::new();
    let mut kinds = Vec::new();
    for _ in 0..n {
        let d = part_data(r);
        let which = r.below(3);
        let c = match which {
            0 => Container::Lzip { member: None },
            1 => Container::Lzip { member: Some(4096) },
            _ => Container::LzipMt { member: 4096, workers: 2 },
        };
        kinds.push(["single", "multi-member", "mt-writer"][which as usize]);
        let part = vec![4096usize; d.len() / 4096 + 1];
        let bytes = encode(&Spec { c, o: opts(r) }, &d, &part, 0).unwrap_or_default();
        file.extend_from_slice(&bytes);
        all.extend_from_slice(&d);
    }
    let sizes: Vec<usize> = gen::gen_read_sizes(r).into_iter().filter(|&s| s > 0).collect();
    let cell = format!("lzip|n{}", n.min(4));
    let desc = format!("LZIP {n} files concatenated {kinds:?} total={}B content={}B readbuf={:?}", file.len(), all.len(), &sizes[..sizes.len().min(3)]);
    stat_add("lzip_files", n as u64);
    let cap = all.len() + (1 << 20);
    let mut out = Vec::new();
    let short_plan = match r.below(3) {
        0 => ReadPlan::default(),
        1 => ReadPlan::one_byte(),
        _ => ReadPlan { short: vec![3, 1, 2, 5], ..Default::default() },
    };
    match catch(|| {
        crate::ours::decode_from(&Spec { c: Container::Lzip { member: None }, o: opts(&mut Rng::new(1)) }, FaultyRead::new(&file, short_plan.clone()), 0, &sizes, cap).drain
    }) {
        Err(p) => out.push(CaseOut::viol(cell.clone(), format!("panic LZIPReader @{}", p.site()), p.short_msg(), desc.clone())),
        Ok(d) => {
            if !d.is_ok() {
                out.push(CaseOut::viol(cell.clone(), format!("multi-member-rejected LZIPReader {}", d.err_string()), "", desc.clone()));
            } else if d.out != all {
                out.push(CaseOut::viol(cell.clone(), "multi-member-mismatch LZIPReader", first_diff(&d.out, &all), desc.clone()));
            }
        }
    }
    let f2 = file.clone();
    let sz = sizes.clone();
    match crate::mt::guarded(4000, 120_000, move || decode_lzip_mt(Cursor::new(f2), 3, &sz, cap).drain) {
        crate::mt::Guarded::Done(d) => {
            if !d.is_ok() {
                out.push(CaseOut::viol(cell.clone(), format!("multi-member-rejected LZIPReaderMT {}", d.err_string()), "", desc.clone()));
            } else if d.out != all {
                out.push(CaseOut::viol(cell.clone(), "multi-member-mismatch LZIPReaderMT", first_diff(&d.out, &all), desc.clone()));
            }
        }
        crate::mt::Guarded::Panicked(p) => out.push(CaseOut::viol(cell.clone(), format!("panic LZIPReaderMT @{}", p.site()), p.short_msg(), desc.clone())),
        crate::mt::Guarded::Stuck(w) => out.push(CaseOut::viol(cell.clone(), "never-returns LZIPReaderMT", w, desc.clone())),
        crate::mt::Guarded::Timeout => out.push(CaseOut::skip(cell.clone(), "watchdog without stuck predicate (inconclusive)", desc.clone())),
    }
    if out.is_empty() {
        out.push(CaseOut::held(cell, n > 1, desc));
    }
    out
}

pub fn run_case(ctx: &Ctx, idx: u64) -> Vec<CaseOut> {
    let mut r = ctx.rng(idx);
    if idx < STEER || r.chance(2, 3) {
        xz_case(ctx, idx, &mut r)
    } else {
        lzip_case(ctx, idx, &mut r)
    }
}
