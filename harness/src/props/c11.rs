//! C11 - BCJ, Delta and BCJ2 filters are exact inverses and match the reference.

use std::io::Write;

use lzma_rust2::filter::bcj2::BCJ2Reader;
use lzma_rust2::filter::delta::{DeltaReader, DeltaWriter};

use crate::bcj2enc;
use crate::case::{catch, stat_add, CaseOut, Ctx};
use crate::fio::{drain, FaultyRead, ReadPlan};
use crate::gen::{self, Family};
use crate::props::c02::BCJ_IDS;
use crate::props::c05::{exe_for, mk_bcj_reader, mk_bcj_writer};
use crate::util::{first_diff, Rng};

pub const STEER: u64 = 40;

pub fn n_cases(ctx: &Ctx) -> u64 {
    let base = match (ctx.variant.as_str(), ctx.thorough()) {
        ("dbg", false) => 1500,
        ("dbg", true) => 20_000,
        (_, false) => 12_000,
        (_, true) => 300_000,
    };
    STEER + ctx.scaled(base)
}

/// Synthetic "code" dense in the branch opcodes of one architecture.
pub fn dense_code(r: &mut Rng, id: u8, len: usize) -> Vec<u8> {
    let mut v = if r.chance(1, 2) {
        r.bytes(len)
    } else {
        let exe = exe_for(id);
        if exe.len() > len + 4096 {
            let s = 4096 + r.usize_below(exe.len() - len - 4096);
            exe[s..s + len].to_vec()
        } else {
            r.bytes(len)
        }
    };
    let density = *r.pick(&[2usize, 5, 16, 64]);
    let mut i = r.usize_below(8);
    while i + 16 <= len {
        match id {
            0x04 => {
                v[i] = if r.chance(1, 2) { 0xE8 } else { 0xE9 };
                if r.chance(3, 4) {
                    v[i + 4] = if r.chance(1, 2) { 0x00 } else { 0xFF };
                }
            }
            0x07 => {
                let a = i & !3;
                v[a + 3] = 0xEB;
            }
            0x08 => {
                let a = i & !1;
                v[a + 1] = 0xF0 | (v[a + 1] & 7);
                v[a + 3] = 0xF8 | (v[a + 3] & 7);
            }
            0x0A => {
                let a = i & !3;
                if r.chance(1, 2) {
                    v[a + 3] = 0x94 | (v[a + 3] & 3);
                } else {
                    v[a + 3] = 0x90 | (v[a + 3] & 0x60);
                }
            }
            0x05 => {
                let a = i & !3;
                v[a] = 0x48 | (v[a] & 3);
                v[a + 3] = (v[a + 3] & 0xFC) | 1;
            }
            0x09 => {
                let a = i & !3;
                if r.chance(1, 2) {
                    v[a] = 0x40;
                    v[a + 1] &= 0x3F;
                } else {
                    v[a] = 0x7F;
                    v[a + 1] |= 0xC0;
                }
            }
            0x06 => {
                let a = i & !15;
                v[a] = (v[a] & 0xE0) | *r.pick(&[0x10u8, 0x11, 0x12, 0x13, 0x16, 0x17, 0x18, 0x19, 0x1C, 0x1D]);
            }
            _ => {
                let a = i & !1;
                if r.chance(1, 2) {
                    v[a] = 0xEF; // JAL ra
                    v[a + 1] = (v[a + 1] & 0xF0) | 0x00;
                } else {
                    v[a] = 0x97 | (v[a] & 0x00); // AUIPC
                }
            }
        }
        i += 1 + r.usize_below(density * 4);
    }
    v
}

fn bcj_roundtrip_case(ctx: &Ctx, idx: u64, r: &mut Rng) -> Vec<CaseOut> {
    let _ = ctx;
    let (id, align, aname) = if idx < STEER { BCJ_IDS[(idx % 8) as usize] } else { *r.pick(&BCJ_IDS) };
    let len = if idx < STEER {
        [0usize, 3, 17, 4095, 4096 + 5, 40_000][(idx / 8) as usize % 6]
    } else {
        match r.below(6) {
            0 => r.usize_below(align as usize + 24),
            1 => 4096 - 8 + r.usize_below(17),
            2 => 8192 - 8 + r.usize_below(17),
            _ => r.log_range(1, 300_000) as usize,
        }
    };
    let kind = r.below(4);
    let data = match kind {
        0 => r.bytes(len),
        1 => {
            let exe = exe_for(id);
            if exe.len() > len + 8192 {
                let s = r.usize_below(exe.len() - len);
                exe[s..s + len].to_vec()
            } else {
                r.bytes(len)
            }
        }
        _ => dense_code(r, id, len),
    };
    let off: u32 = match r.below(6) {
        0 | 1 => 0,
        2 => align * r.range(1, 100_000) as u32,
        3 => ((0x7FFF_FFFFu32 - r.below(200_000) as u32) / align) * align,
        4 => ((0xFFFF_FFFFu32 - r.below(200_000) as u32) / align) * align,
        _ => (r.next_u32() / align) * align,
    };
    let offclass = match off {
        0 => "off0",
        1..=0x7FF0_0000 => "off-low",
        0x7FF0_0001..=0x8010_0000 => "off~2^31",
        _ => "off-high",
    };
    let cell = format!("bcj-{aname}|{offclass}|{}|tail{}", ["random", "exe", "dense", "dense"][kind as usize], len % align.max(4) as usize);
    let desc = format!("BCJ {aname} start_offset={off:#x} len={len} data={}", ["random", "exe-slice", "dense-code", "dense-code"][kind as usize]);
    let mut out = Vec::new();
    // own writer, single write
    let ours = match catch(|| {
        let mut o = Vec::new();
        {
            let mut w = mk_bcj_writer(id, &mut o, off as usize);
            w.write_all(&data).unwrap();
        }
        o
    }) {
        Ok(o) => o,
        Err(p) => return vec![CaseOut::viol(cell, format!("enc-panic bcj-{aname} @{}", p.site()), p.short_msg(), desc)],
    };
    if ours.len() != data.len() {
        return vec![CaseOut::viol(cell, format!("length-changed bcj-{aname}"), format!("{} -> {}", data.len(), ours.len()), desc)];
    }
    // own reader with a random buffer sequence
    let sizes: Vec<usize> = gen::gen_read_sizes(r).into_iter().filter(|&s| s > 0).collect();
    let plan = if r.chance(1, 3) { ReadPlan { short: vec![*r.pick(&[1usize, 3, 4095, 4097])], ..Default::default() } } else { ReadPlan::default() };
    let back = catch(|| {
        let mut rd = mk_bcj_reader(id, FaultyRead::new(&ours, plan.clone()), off as usize);
        drain(&mut rd, &sizes, data.len() + 4096, 4)
    });
    match back {
        Err(p) => return vec![CaseOut::viol(cell, format!("dec-panic bcj-{aname} @{}", p.site()), p.short_msg(), desc)],
        Ok(d) => {
            if !d.is_ok() {
                out.push(CaseOut::viol(cell.clone(), format!("dec-err bcj-{aname} {}", d.err_string()), "", desc.clone()));
            } else if d.out != data {
                out.push(CaseOut::viol(cell.clone(), format!("not-inverse bcj-{aname}"), first_diff(&d.out, &data), desc.clone()));
            }
        }
    }
    #[cfg(feature = "ref")]
    {
        use crate::refimpl::{filter_decode, filter_encode, PreFilter};
        let pf = PreFilter { id, prop: off };
        match filter_encode(pf, &data) {
            Ok(refb) => {
                stat_add("compared_with_reference", 1);
                if refb != ours {
                    out.push(CaseOut::viol(cell.clone(), format!("differs-from-reference bcj-{aname} (encoder side)"), first_diff(&ours, &refb), desc.clone()));
                }
                // our reader on the reference's filtered bytes
                let mut rd = mk_bcj_reader(id, refb.as_slice(), off as usize);
                let d = drain(&mut rd, &sizes, data.len() + 4096, 4);
                if !d.is_ok() || d.out != data {
                    out.push(CaseOut::viol(cell.clone(), format!("differs-from-reference bcj-{aname} (decoder side)"), first_diff(&d.out, &data), desc.clone()));
                }
            }
            Err(e) => out.push(CaseOut::skip(cell.clone(), format!("reference refused the filter options: {e:?}"), desc.clone())),
        }
        if let Ok(refd) = filter_decode(pf, &ours) {
            if refd != data {
                out.push(CaseOut::viol(cell.clone(), format!("reference-cannot-invert bcj-{aname}"), first_diff(&refd, &data), desc.clone()));
            }
        }
    }
    if out.is_empty() {
        out.push(CaseOut::held(cell, ours != data, desc));
    }
    out
}

fn delta_case(r: &mut Rng, dist: usize) -> Vec<CaseOut> {
    let len = match r.below(4) {
        0 => r.usize_below(dist + 5),
        1 => dist * 2 + r.usize_below(3),
        _ => r.log_range(1, 100_000) as usize,
    };
    let fam = *r.pick(&[Family::Random, Family::Periodic, Family::Text, Family::Constant]);
    let data = gen::gen_data(r, fam, len);
    let cell = format!("delta|d{}|{}", if dist <= 4 { dist.to_string() } else if dist == 256 { "256".into() } else { "mid".into() }, fam.name());
    let desc = format!("Delta distance={dist} len={len} fam={}", fam.name());
    let mut out = Vec::new();
    let ours = {
        let mut o = Vec::new();
        {
            let mut w = DeltaWriter::new(&mut o, dist);
            w.write_all(&data).unwrap();
        }
        o
    };
    let sizes: Vec<usize> = gen::gen_read_sizes(r).into_iter().filter(|&s| s > 0).collect();
    let mut rd = DeltaReader::new(ours.as_slice(), dist);
    let d = drain(&mut rd, &sizes, data.len() + 4096, 4);
    if !d.is_ok() || d.out != data {
        out.push(CaseOut::viol(cell.clone(), "not-inverse delta", first_diff(&d.out, &data), desc.clone()));
    }
    #[cfg(feature = "ref")]
    {
        use crate::refimpl::{filter_encode, PreFilter};
        if let Ok(refb) = filter_encode(PreFilter { id: 3, prop: dist as u32 }, &data) {
            stat_add("compared_with_reference", 1);
            if refb != ours {
                out.push(CaseOut::viol(cell.clone(), "differs-from-reference delta", first_diff(&ours, &refb), desc.clone()));
            }
        }
    }
    if out.is_empty() {
        out.push(CaseOut::held(cell, len > dist, desc));
    }
    out
}

fn bcj2_case(r: &mut Rng) -> Vec<CaseOut> {
    let len = match r.below(5) {
        0 => r.usize_below(12),
        1 => (1 << 18) - 6 + r.usize_below(12),
        _ => r.log_range(1, 600_000) as usize,
    };
    let kind = r.below(3);
    let data: Vec<u8> = match kind {
        0 => dense_code(r, 0x04, len),
        1 => {
            // opcode-dense noise incl. 0F 8x and sites in the last 4 bytes
            let mut v = r.bytes(len);
            for i in 0..len {
                match v[i] % 11 {
                    0 => v[i] = 0xE8,
                    1 => v[i] = 0xE9,
                    2 => {
                        v[i] = 0x0F;
                        if i + 1 < len {
                            v[i + 1] = 0x80 | (v[i + 1] & 0x0F);
                        }
                    }
                    _ => {}
                }
            }
            v
        }
        _ => {
            let exe = exe_for(0x04);
            if exe.len() > len + 100 {
                let s = r.usize_below(exe.len() - len);
                exe[s..s + len].to_vec()
            } else {
                r.bytes(len)
            }
        }
    };
    let p = *r.pick(&[0u64, 1, 2, 3, 4]);
    let s = bcj2enc::encode(&data, r, p, 4);
    let sizes: Vec<usize> = gen::gen_read_sizes(r).into_iter().filter(|&s| s > 0).collect();
    let chunk = *r.pick(&[0usize, 1, 3, 4095, 65536, 1 << 20]);
    let cell = format!("bcj2|convert{p}of4|{}|chunk{}", ["dense", "noise", "exe"][kind as usize], chunk);
    let desc = format!(
        "BCJ2 len={len} sites={} converted={} streams main={} call={} jump={} rc={} source chunk={chunk} readbuf={:?}",
        s.sites,
        s.converted,
        s.main.len(),
        s.call.len(),
        s.jump.len(),
        s.rc.len(),
        &sizes[..sizes.len().min(3)]
    );
    stat_add("bcj2_sites", s.sites as u64);
    stat_add("bcj2_converted", s.converted as u64);
    let plan = if chunk == 0 { ReadPlan::default() } else { ReadPlan { short: vec![chunk], ..Default::default() } };
    let res = catch(|| {
        let inputs = vec![
            FaultyRead::new(&s.main, plan.clone()),
            FaultyRead::new(&s.call, plan.clone()),
            FaultyRead::new(&s.jump, plan.clone()),
            FaultyRead::new(&s.rc, plan.clone()),
        ];
        let mut rd = BCJ2Reader::new(inputs, data.len() as u64);
        drain(&mut rd, &sizes, data.len() + 4096, 4)
    });
    match res {
        Err(pn) => vec![CaseOut::viol(cell, format!("dec-panic bcj2 @{}", pn.site()), pn.short_msg(), desc)],
        Ok(d) => {
            if !d.is_ok() {
                vec![CaseOut::viol(cell, format!("dec-err bcj2 {}", d.err_string()), format!("after {} of {} bytes", d.out.len(), data.len()), desc)]
            } else if d.out != data {
                vec![CaseOut::viol(cell, "mismatch bcj2", first_diff(&d.out, &data), desc)]
            } else {
                vec![CaseOut::held(cell, s.converted > 0, desc)]
            }
        }
    }
}

pub fn run_case(ctx: &Ctx, idx: u64) -> Vec<CaseOut> {
    let mut r = ctx.rng(idx);
    if idx < STEER {
        return bcj_roundtrip_case(ctx, idx, &mut r);
    }
    // all 256 delta distances are visited deterministically, then random kinds
    let j = idx - STEER;
    if j < 256 {
        return delta_case(&mut r, j as usize + 1);
    }
    match r.below(10) {
        0..=5 => bcj_roundtrip_case(ctx, idx, &mut r),
        6 => {
            let d = 1 + r.usize_below(256);
            delta_case(&mut r, d)
        }
        _ => bcj2_case(&mut r),
    }
}
