//! C18 - size options and declared sizes are honoured.

use std::io::Write;

use lzma_rust2::{EncodeMode, LZMAOptions, LZMAWriter, MFType};

use crate::case::{catch, stat_add, CaseOut, Ctx};
use crate::fio::write_partitioned;
use crate::gen::{self, Family};
use crate::mt::{self, Guarded};
use crate::ours::{decode_from, decode_lzip_mt, encode, Container, Spec};
use crate::util::Rng;
use crate::walk;

pub const STEER: u64 = 12;

pub fn n_cases(ctx: &Ctx) -> u64 {
    let base = match (ctx.variant.as_str(), ctx.thorough()) {
        ("dbg", false) => 300,
        ("dbg", true) => 4000,
        (_, false) => 3000,
        (_, true) => 50_000,
    };
    STEER + ctx.scaled(base)
}

fn opts(r: &mut Rng, dict: u32) -> LZMAOptions {
    let mode = if r.chance(1, 2) { EncodeMode::Fast } else { EncodeMode::Normal };
    let mf = if r.chance(1, 2) { MFType::HC4 } else { MFType::BT4 };
    LZMAOptions::new(dict, 3, 0, 2, mode, 32, mf, 0)
}

/// Write histories that matter for size limits.
fn history(r: &mut Rng, len: usize, limit: usize, which: u64) -> (Vec<usize>, usize, &'static str) {
    match which {
        0 => (vec![len], 0, "one-huge-write"),
        1 => {
            if len <= 30_000 {
                (vec![1; len], 0, "1-byte-writes")
            } else {
                (vec![7; len / 7 + 1], 0, "7-byte-writes")
            }
        }
        2 => {
            // straddle the limit by -3..3
            let d = r.range(0, 6) as isize - 3;
            let first = (limit as isize + d).max(1) as usize;
            let mut v = vec![first.min(len)];
            let mut left = len - first.min(len);
            while left > 0 {
                let n = ((limit as isize + r.range(0, 6) as isize - 3).max(1) as usize).min(left);
                v.push(n);
                left -= n;
            }
            (v, 0, "straddle-limit")
        }
        3 => {
            let mut v = Vec::new();
            let mut left = len;
            while left > 0 {
                let n = limit.max(1).min(left);
                v.push(n);
                left -= n;
            }
            (v, 1, "exact-limit-writes+flush")
        }
        _ => (gen::gen_partition(r, len), 0, "random"),
    }
}

fn sizes_case(ctx: &Ctx, idx: u64, r: &mut Rng) -> Vec<CaseOut> {
    let _ = ctx;
    let which_c = if idx < STEER { idx % 4 } else { r.below(4) };
    // also dictionary sizes that are no powers of two (headers store them rounded up)
    let dict = *r.pick(&[4096u32, 4096, 8192, 65536, 5000, 6000, 3 << 12, 70_000, 96 << 10]);
    let configured: u64 = match r.below(5) {
        0 => 1,
        1 => dict as u64,
        2 => dict as u64 + r.range(1, 5000),
        3 => r.log_range(1, 300_000),
        _ => (dict as u64) * 2,
    };
    let limit = configured.max(dict as u64) as usize;
    let len = if idx < STEER {
        limit * 3 + 17
    } else {
        match r.below(4) {
            0 => r.range(0, 20) as usize,
            1 => limit * (1 + r.usize_below(4)),
            2 => limit * (1 + r.usize_below(4)) + 1 + r.usize_below(limit),
            _ => r.log_range(1, 1_000_000) as usize,
        }
    };
    let compressible = r.chance(2, 3);
    let data = mt::stamped_data(r, len, limit, compressible);
    let hw = if idx < STEER { idx / 4 } else { r.below(5) };
    let (partition, flush_every, hname) = history(r, len, limit, hw);
    let o = opts(r, dict);
    let (c, cname) = match which_c {
        0 => (Container::Xz { check: *r.pick(&[0u8, 1, 4]), block: Some(configured), filters: vec![] }, "XZWriter"),
        1 => (Container::Lzip { member: Some(configured) }, "LZIPWriter"),
        2 => (Container::Lzma2Mt { chunk: configured, workers: 1 + r.below(4) as u32 }, "LZMA2WriterMT"),
        _ => (Container::LzipMt { member: configured, workers: 1 + r.below(4) as u32 }, "LZIPWriterMT"),
    };
    let is_mt = which_c >= 2;
    // MT writers: a flush legitimately emits a short unit, keep it out of the exact-size clause
    let flush_every = if is_mt { 0 } else { flush_every };
    let spec = Spec { c: c.clone(), o };
    let cell = format!("{cname}|{hname}|cfg{}|{}", if configured <= dict as u64 { "<=dict" } else { ">dict" }, gen::len_class(len));
    let desc = format!("{cname} configured={configured} dict={dict} limit={limit} len={len} history={hname} ({} writes) {:?}", partition.len(), c);
    let sp = spec.clone();
    let d2 = data.clone();
    let p2 = partition.clone();
    let enc = mt::guarded(5000, 200_000, move || encode(&sp, &d2, &p2, flush_every));
    let bytes = match enc {
        Guarded::Done(Ok(b)) => b,
        Guarded::Done(Err(e)) => return vec![CaseOut::skip(cell, format!("encode failed: {e} (judged by C02/C08)"), desc)],
        Guarded::Panicked(p) => return vec![CaseOut::skip(cell, format!("encode panicked at {} (judged by C02/C08)", p.site()), desc)],
        _ => return vec![CaseOut::skip(cell, "encode did not return (judged by C09)", desc)],
    };
    // ground truth from the walkers
    let units: Vec<usize> = match which_c {
        0 => match walk::walk_xz_stream(&bytes, 0) {
            Ok(s) => s.blocks.iter().map(|b| b.lzma2.total_uncompressed()).collect(),
            Err(e) => return vec![CaseOut::skip(cell, format!("walker: {e} (judged by C02)"), desc)],
        },
        1 | 3 => match walk::walk_lzip(&bytes) {
            Ok(ms) => ms.iter().map(|m| m.data_size as usize).collect(),
            Err(e) => return vec![CaseOut::skip(cell, format!("walker: {e} (judged by C02)"), desc)],
        },
        _ => {
            let w = walk::walk_lzma2(&bytes, 0);
            if w.error.is_some() {
                return vec![CaseOut::skip(cell, "walker failed (judged by C01)", desc)];
            }
            w.unit_sizes()
        }
    };
    stat_add("units_seen", units.len() as u64);
    let mut out = Vec::new();
    if units.iter().sum::<usize>() != len {
        out.push(CaseOut::viol(cell.clone(), format!("unit-sizes-do-not-sum {cname}"), format!("{:?} vs {len}", &units[..units.len().min(8)]), desc.clone()));
    }
    if let Some((i, u)) = units.iter().enumerate().find(|(_, u)| **u > limit) {
        out.push(CaseOut::viol(
            cell.clone(),
            format!("unit-larger-than-configured {cname} [{hname}]"),
            format!("unit {i} holds {u} bytes, limit max(configured, dict) = {limit}; units {:?}", &units[..units.len().min(8)]),
            desc.clone(),
        ));
    }
    if is_mt && len > 0 {
        // every unit but the last is exactly `limit`
        if let Some((i, u)) = units[..units.len() - 1].iter().enumerate().find(|(_, u)| **u != limit) {
            out.push(CaseOut::viol(
                cell.clone(),
                format!("unit-not-exact {cname} [{hname}]"),
                format!("unit {i} of {} holds {u} bytes, expected {limit}", units.len()),
                desc.clone(),
            ));
        }
        let expected_units = len.div_ceil(limit);
        if units.len() != expected_units {
            out.push(CaseOut::viol(cell.clone(), format!("unit-count {cname}"), format!("{} units, expected {expected_units}", units.len()), desc.clone()));
        }
    }
    // reader-side counts for non-empty data
    if len > 0 && which_c >= 1 {
        let b2 = bytes.clone();
        let counted = mt::guarded(5000, 120_000, move || {
            if which_c == 2 {
                let d = decode_from(&Spec { c: Container::Lzma2Mt { chunk: 1, workers: 3 }, o: LZMAOptions::new(dict, 3, 0, 2, EncodeMode::Fast, 32, MFType::HC4, 0) }, b2.as_slice(), 0, &[65536], len + (1 << 20));
                (d.units, d.drain.is_ok())
            } else {
                let d = decode_lzip_mt(std::io::Cursor::new(b2), 3, &[65536], len + (1 << 20));
                (d.units, d.drain.is_ok())
            }
        });
        if let Guarded::Done((Some(n), true)) = counted {
            stat_add("reader_counts_checked", 1);
            if n as usize != units.len() {
                let which = if which_c == 2 { "LZMA2ReaderMT::chunk_count" } else { "LZIPReaderMT::member_count" };
                out.push(CaseOut::viol(cell.clone(), format!("count-mismatch {which}"), format!("reports {n}, the stream holds {} independent units", units.len()), desc.clone()));
            }
        }
    }
    if out.is_empty() {
        out.push(CaseOut::held(cell, units.len() > 1, desc));
    }
    out
}

fn lzma_expected_size_case(r: &mut Rng) -> Vec<CaseOut> {
    let n = r.log_range(1, 20_000) as usize;
    let rel = r.below(5);
    let (expected, ename): (Option<u64>, &str) = match rel {
        0 => (Some(n as u64), "equal"),
        1 => (Some((n as u64).saturating_sub(1 + r.below(5))), "smaller"),
        2 => (Some(n as u64 + 1 + r.below(5)), "larger"),
        3 => (None, "none"),
        _ => (Some(0), "zero"),
    };
    let data = gen::gen_data(r, Family::Text, n);
    let partition = gen::gen_partition(r, n);
    let header = r.chance(3, 4);
    // the general constructor allows an end marker together with an expected size
    let marker = if expected.is_none() { true } else { r.chance(1, 2) };
    let o = opts(r, 4096);
    let cell = format!("LZMAWriter|expected-{ename}|{}|{}", if header { "header" } else { "no-header" }, if marker { "eos" } else { "no-eos" });
    let desc = format!("LZMAWriter::new(header={header}, end_marker={marker}, expected={expected:?}) actual={n} writes={}", partition.len());
    let res = catch(|| {
        let mut sink = Vec::new();
        let mut w = LZMAWriter::new(&mut sink, &o, header, marker, expected)?;
        let mut accepted = 0u64;
        let mut write_err = None;
        let mut off = 0;
        for &p in &partition {
            let p = p.min(n - off);
            if p == 0 {
                continue;
            }
            match w.write(&data[off..off + p]) {
                Ok(k) => {
                    accepted += k as u64;
                    off += k;
                    if k < p {
                        let _ = write_partitioned(&mut w, &data[off..off + (p - k)], &[p - k], 0).map(|_| {
                            accepted += (p - k) as u64;
                            off += p - k;
                        });
                    }
                }
                Err(e) => {
                    write_err = Some(e);
                    break;
                }
            }
        }
        let reported = w.get_uncompressed_size();
        let fin = w.finish().map(|_| ());
        Ok::<_, std::io::Error>((accepted, reported, write_err, fin, sink))
    });
    stat_add("expected_size_cases", 1);
    match res {
        Err(p) => vec![CaseOut::viol(cell, format!("panic LZMAWriter expected-size @{}", p.site()), p.short_msg(), desc)],
        Ok(Err(e)) => vec![CaseOut::viol(cell, format!("ctor-err LZMAWriter {e}"), "", desc)],
        Ok(Ok((accepted, _reported, write_err, fin, sink))) => {
            let mut out = Vec::new();
            if let Some(exp) = expected {
                if accepted > exp {
                    out.push(CaseOut::viol(cell.clone(), "accepts-more-than-expected LZMAWriter", format!("accepted {accepted} bytes with expected size {exp}"), desc.clone()));
                }
                if (n as u64) > exp && write_err.is_none() {
                    out.push(CaseOut::viol(cell.clone(), "accepts-more-than-expected LZMAWriter", "no write reported an error".to_string(), desc.clone()));
                }
                if accepted < exp && fin.is_ok() {
                    out.push(CaseOut::viol(cell.clone(), "finishes-short-of-expected LZMAWriter", format!("finish() Ok after {accepted} of {exp} bytes"), desc.clone()));
                }
                if accepted == exp && write_err.is_none() && fin.is_err() {
                    out.push(CaseOut::viol(cell.clone(), "refuses-exact-size LZMAWriter", format!("{:?}", fin.as_ref().err()), desc.clone()));
                }
            } else if fin.is_err() || write_err.is_some() {
                out.push(CaseOut::viol(cell.clone(), "fails-without-expected-size LZMAWriter", "".to_string(), desc.clone()));
            }
            if header && fin.is_ok() && sink.len() >= 13 {
                let field = u64::from_le_bytes(sink[5..13].try_into().unwrap());
                let want = expected.unwrap_or(u64::MAX);
                if field != want || (expected.is_some() && field != accepted) {
                    out.push(CaseOut::viol(cell.clone(), "header-size-field LZMAWriter", format!("header says {field:#x}, written {accepted}, expected {want:#x}"), desc.clone()));
                }
            }
            if out.is_empty() {
                out.push(CaseOut::held(cell, true, desc));
            }
            out
        }
    }
}

pub fn run_case(ctx: &Ctx, idx: u64) -> Vec<CaseOut> {
    let mut r = ctx.rng(idx);
    if idx < STEER || r.chance(3, 4) {
        sizes_case(ctx, idx, &mut r)
    } else {
        lzma_expected_size_case(&mut r)
    }
}
