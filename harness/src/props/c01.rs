//! C01 - LZMA/LZMA2 compress then decompress returns exactly the input.

use lzma_rust2::{EncodeMode, LZMAOptions, MFType};

use crate::case::{catch, CaseOut, Ctx};
use crate::gen::{self, Family};
use crate::ours::{decode_from, encode, Container, Spec};
use crate::util::{first_diff, Rng};
use crate::walk;

pub const STEER: u64 = 42;

pub fn n_cases(ctx: &Ctx) -> u64 {
    let base = match (ctx.variant.as_str(), ctx.thorough()) {
        ("miri", false) => 6,
        ("miri", true) => 40,
        ("vg", false) => 40,
        ("vg", true) => 400,
        ("dbg", false) => 800,
        ("dbg", true) => 4000,
        ("asan", false) => 600,
        ("asan", true) => 12000,
        (_, false) => 9000,
        (_, true) => 60000,
    };
    STEER + ctx.scaled(base)
}

pub struct Case {
    pub spec: Spec,
    pub fam: Family,
    pub len: usize,
    pub bias: i32,
    pub data_seed: u64,
    pub partition_single: bool,
    /// fixed write size (steering cases)
    pub write_size: usize,
}

fn steer_case(i: u64, ctx: &Ctx) -> Case {
    let small = ctx.slow();
    let k = |n: usize| if small { (n / 64).max(300) } else { n };
    let o = |dict: u32, mode: EncodeMode, mf: MFType, nice: u32| {
        LZMAOptions::new(dict, 3, 0, 2, mode, nice, mf, 0)
    };
    use EncodeMode::*;
    use MFType::*;
    let mut write_size = 0usize;
    let (c, opts, fam, len, bias) = match i {
        0 => (Container::Lzma2 { chunk: None }, o(1 << 16, Normal, BT4, 64), Family::EditRepeat, k(60_000), 0),
        1 => (Container::Lzma2 { chunk: None }, o(1 << 16, Fast, HC4, 32), Family::EditRepeat, k(60_000), 0),
        2 => (Container::LzmaHeaderMarker, o(1 << 20, Normal, BT4, 64), Family::FarCopy, k(400_000), 0),
        3 => (Container::LzmaHeaderSized, o(1 << 20, Fast, HC4, 128), Family::FarCopy, k(400_000), 0),
        4 => (Container::Lzma2 { chunk: None }, o(1 << 20, Fast, HC4, 32), Family::Sandwich, k(800_000), 0),
        5 => {
            write_size = 10_000;
            (Container::Lzma2 { chunk: Some(70_000) }, o(65536, Fast, HC4, 32), Family::Sandwich, k(800_000), 0)
        }
        6 => {
            write_size = 1000;
            (Container::Lzma2 { chunk: Some(4096) }, o(4096, Normal, BT4, 16), Family::Sandwich, k(300_000), 0)
        }
        7 => (Container::LzmaRawMarker, o(4096, Fast, HC4, 16), Family::Text, k(700_000), 0),
        8 => (Container::LzmaRawSized, o(4096, Normal, BT4, 32), Family::Exe, k(700_000), 0),
        9 => (Container::Lzma2 { chunk: None }, o(1 << 16, Fast, HC4, 32), Family::Text, k(150_000), 0x7FFF_FFFF - 3000),
        10 => (Container::Lzma2 { chunk: None }, o(1 << 16, Normal, BT4, 32), Family::Text, k(150_000), 0x7FFF_FFFF - 3000),
        11 => (Container::LzmaHeaderMarker, o(1 << 16, Fast, HC4, 64), Family::EditRepeat, k(120_000), 0x7FFF_FFFF - 70_000),
        12 => (Container::LzmaHeaderMarker, o(1 << 16, Normal, BT4, 64), Family::Exe, k(120_000), 0x7FFF_FFFF - 70_000),
        13 => (Container::Lzma2 { chunk: None }, o(1 << 18, Normal, BT4, 273), Family::Constant, k(5_000_000), 0),
        14 => (Container::Lzma2 { chunk: None }, o(1 << 18, Fast, HC4, 273), Family::Periodic, k(3_000_000), 0),
        15 => (Container::Lzma2 { chunk: None }, o(4096, Fast, HC4, 8), Family::Empty, 0, 0),
        16 => (Container::LzmaHeaderSized, o(4096, Normal, BT4, 8), Family::Empty, 0, 0),
        17 => (Container::LzmaHeaderMarker, o(4096, Normal, BT4, 8), Family::OneByte, 1, 0),
        18 => (Container::Lzma2 { chunk: None }, o(4096, Normal, BT4, 8), Family::OneByte, 1, 0),
        19 => (Container::Lzma2 { chunk: None }, o(1 << 20, Normal, BT4, 64), Family::LowEntropy, k(300_000), 0),
        20 => (Container::LzmaRawMarkerSized, o(1 << 16, Normal, HC4, 64), Family::Text, k(100_000), 0),
        21 => (Container::Lzma2 { chunk: None }, LZMAOptions::new(1 << 16, 0, 4, 4, Normal, 64, BT4, 0), Family::Exe, k(100_000), 0),
        22 => (Container::LzmaHeaderMarker, LZMAOptions::new(1 << 16, 8, 4, 0, Fast, 64, HC4, 0), Family::Text, k(100_000), 0),
        _ => {
            write_size = 4096;
            (Container::Lzma2 { chunk: Some(1 << 16) }, o(1 << 16, Normal, BT4, 64), Family::Random, k(300_000), 0)
        }
    };
    Case {
        spec: Spec { c, o: opts },
        fam,
        len,
        bias,
        data_seed: 1000 + i,
        partition_single: true,
        write_size,
    }
}

fn random_case(r: &mut Rng, ctx: &Ctx) -> Case {
    let lzma2 = r.chance(1, 2);
    let big = ctx.thorough() && r.chance(1, 20);
    let mut o = gen::gen_lzma_opts(r, lzma2, big);
    let c = if lzma2 {
        let chunk = match r.below(4) {
            0 | 1 => None,
            2 => Some(*r.pick(&[1u64, 4096, 65536, 100_000, 1 << 20])),
            _ => Some(r.log_range(1, 4 << 20)),
        };
        Container::Lzma2 { chunk }
    } else {
        match r.below(5) {
            0 => Container::LzmaHeaderSized,
            1 => Container::LzmaHeaderMarker,
            2 => Container::LzmaRawMarker,
            3 => Container::LzmaRawSized,
            _ => Container::LzmaRawMarkerSized,
        }
    };
    let max = if ctx.slow() {
        3000
    } else if ctx.thorough() {
        if r.chance(1, 200) {
            64 << 20
        } else {
            4 << 20
        }
    } else {
        1 << 20
    };
    let fam = if r.chance(1, 12) {
        *r.pick(&[Family::Empty, Family::OneByte])
    } else {
        *r.pick(&gen::BULK_FAMILIES)
    };
    let len = gen::gen_len(r, max, o.dict_size);
    // preset dictionary: not with a .lzma header (unsupported by design)
    let header = matches!(c, Container::LzmaHeaderSized | Container::LzmaHeaderMarker);
    if !header && r.chance(1, 5) {
        let d = o.dict_size as usize;
        let n = *r.pick(&[1usize, 2, 100, d / 2, d.saturating_sub(1), d, d + 1, d + 1000]);
        let n = n.clamp(1, 1 << 20);
        let pf = *r.pick(&[Family::Text, Family::Random, Family::Exe]);
        o.preset_dict = Some(gen::gen_data(r, pf, n));
    }
    let bias = if r.chance(1, 6) {
        0x7FFF_FFFF - r.range(1, 200_000) as i32
    } else {
        0
    };
    // LZMA2 with a small dictionary on runs of incompressible data of about one stored chunk:
    // stored chunks a little longer than 64 KiB (the optimum parser's read-ahead is part of them)
    // right where the encoder window moves
    let (c, fam, len) = if !ctx.slow() && r.chance(1, 12) {
        o.dict_size = *r.pick(&[4096u32, 4096, 8192, 1 << 15, 61_440, 1 << 16]);
        if r.chance(3, 4) {
            o.mode = EncodeMode::Normal;
        }
        o.preset_dict = None;
        if o.lc + o.lp > 4 {
            o.lc = 3;
            o.lp = 0;
        }
        let chunk = if r.chance(1, 4) { Some(r.log_range(100_000, 2 << 20)) } else { None };
        (Container::Lzma2 { chunk }, Family::StoredRuns, 250_000 + r.usize_below(400_000))
    } else {
        (c, fam, len)
    };
    Case {
        spec: Spec { c, o },
        fam,
        len,
        bias,
        data_seed: r.next_u64(),
        partition_single: r.chance(2, 3),
        write_size: 0,
    }
}

pub fn make_case(ctx: &Ctx, idx: u64) -> Case {
    if idx < STEER {
        steer_case(idx, ctx)
    } else {
        let mut r = ctx.rng(idx);
        random_case(&mut r, ctx)
    }
}

/// Decoder-only steering: hand-built LZMA2 streams at the limits of the chunk size fields.
fn handmade_case(idx: u64) -> Vec<CaseOut> {
    let chunk = if idx == 24 { 65536 } else { 65535 };
    let mut r = Rng::new(idx);
    let (stream, data) = crate::mt::handmade_lzma2(&mut r, 2, 2, chunk, true);
    let cell = format!("lzma2-handmade|uncompressed-chunk-{chunk}");
    let desc = format!("hand-built LZMA2 stream: 2 units x 2 uncompressed chunks of {chunk} bytes");
    let spec = Spec { c: Container::Lzma2 { chunk: None }, o: LZMAOptions::new(1 << 20, 3, 0, 2, EncodeMode::Fast, 32, MFType::HC4, 0) };
    match catch(|| decode_from(&spec, stream.as_slice(), 0, &[4096], data.len() + 4096)) {
        Err(p) => vec![CaseOut::viol(cell, format!("dec-panic lzma2-handmade @{}", p.site()), p.short_msg(), desc)],
        Ok(d) => {
            if !d.drain.is_ok() {
                vec![CaseOut::viol(cell, format!("dec-err lzma2-handmade {}", d.drain.err_string()), "valid stream of maximal uncompressed chunks rejected", desc)]
            } else if d.drain.out != data {
                vec![CaseOut::viol(cell, "mismatch lzma2-handmade", first_diff(&d.drain.out, &data), desc)]
            } else {
                vec![CaseOut::held(cell, true, desc)]
            }
        }
    }
}

/// Steering 26..39: a stored LZMA2 chunk that, with the optimum parser's read-ahead, is longer than
/// 64 KiB and is collected while the encoder window moves (dictionary 4 KiB, normal mode): zero
/// prefix of z bytes, 420 000 incompressible bytes, and a region dense with short matches where the
/// sixth chunk ends. The layout follows a reproducer found during the seeded-change validation.
fn stored_chunk_window_move_case(ctx: &Ctx, idx: u64) -> Vec<CaseOut> {
    if ctx.slow() {
        return vec![CaseOut::skip("lzma2|stored-chunk-window-move", "too large for the interpreter variants", "")];
    }
    let z = 6340 + (idx as usize - 26) * 40;
    let mut x: u64 = 0x9E37_79B9_7F4A_7C15 ^ 1;
    let mut data = vec![0u8; z];
    data.extend((0..420_000).map(|_| {
        x ^= x << 13;
        x ^= x >> 7;
        x ^= x << 17;
        (x >> 32) as u8
    }));
    let start = z + 64_601 * 4 + 64_450;
    let len = 3000;
    let copy: Vec<u8> = data[start - 3500..start - 3500 + len].to_vec();
    data[start..start + len].copy_from_slice(&copy);
    for k in (0..len).step_by(6) {
        data[start + k] ^= 0x55;
    }
    let spec = Spec { c: Container::Lzma2 { chunk: None }, o: LZMAOptions::new(4096, 3, 0, 2, EncodeMode::Normal, 64, MFType::BT4, 0) };
    let cell = "lzma2|stored-chunk-window-move".to_string();
    let desc = format!("LZMA2Writer dict=4096 normal bt4 nice=64: {z} zeros + 420000 random bytes + 3000-byte altered copy at {start}");
    let bytes = match catch(|| encode(&spec, &data, &[data.len()], 0)) {
        Err(p) => return vec![CaseOut::viol(cell, format!("enc-panic lzma2 @{}", p.site()), p.short_msg(), desc)],
        Ok(Err(e)) => return vec![CaseOut::viol(cell, format!("enc-err lzma2 {:?}:{e}", e.kind()), "", desc)],
        Ok(Ok(b)) => b,
    };
    match catch(|| decode_from(&spec, bytes.as_slice(), data.len() as u64, &[65536], data.len() + 4096)) {
        Err(p) => vec![CaseOut::viol(cell, format!("dec-panic lzma2 @{}", p.site()), p.short_msg(), desc)],
        Ok(d) => {
            if !d.drain.is_ok() {
                vec![CaseOut::viol(cell, format!("dec-err lzma2 {}", d.drain.err_string()), "", desc)]
            } else if d.drain.out != data {
                vec![CaseOut::viol(cell, "mismatch lzma2", first_diff(&d.drain.out, &data), desc)]
            } else {
                vec![CaseOut::held(cell, true, desc)]
            }
        }
    }
}

/// Steering 40, 41: one `write` call that is handed 2 GiB (a memory-mapped file, say). `write` may
/// take as little of it as it likes, but what it reports as taken has to round-trip.
fn huge_write_case(ctx: &Ctx, idx: u64) -> Vec<CaseOut> {
    use std::io::Write;
    let cell = "huge-single-write".to_string();
    if ctx.slow() {
        return vec![CaseOut::skip(cell, "too large for the interpreter variants", "")];
    }
    let lzma2 = idx == 40;
    let n = (1usize << 31) + if lzma2 { 0 } else { 5 };
    let desc = format!("{} one write() call with a slice of {n} zero bytes (lazily zeroed pages), then finish()", if lzma2 { "LZMA2Writer" } else { "LZMAWriter" });
    let o = LZMAOptions::new(1 << 16, 3, 0, 2, EncodeMode::Fast, 32, MFType::HC4, 0);
    let res = catch(|| -> std::io::Result<(usize, Vec<u8>)> {
        let big = vec![0u8; n];
        if lzma2 {
            let mut w = lzma_rust2::LZMA2Writer::new(Vec::new(), lzma_rust2::LZMA2Options { lzma_options: o.clone(), chunk_size: None });
            let taken = w.write(&big)?;
            Ok((taken, w.finish()?))
        } else {
            let mut w = lzma_rust2::LZMAWriter::new_use_header(Vec::new(), &o, None)?;
            let taken = w.write(&big)?;
            Ok((taken, w.finish()?))
        }
    });
    let (taken, bytes) = match res {
        Err(p) => return vec![CaseOut::viol(cell, format!("enc-panic {} @{}", if lzma2 { "lzma2" } else { "lzma-hdr-eos" }, p.site()), p.short_msg(), desc)],
        Ok(Err(e)) => return vec![CaseOut::viol(cell, format!("enc-err huge-write {:?}:{e}", e.kind()), "", desc)],
        Ok(Ok(x)) => x,
    };
    if taken == 0 || taken > n {
        return vec![CaseOut::viol(cell, "write-count huge-write", format!("write() reported {taken} of {n} bytes"), desc)];
    }
    if taken > (64 << 20) {
        return vec![CaseOut::skip(cell, format!("write() took {taken} bytes at once; decoding that much is left to the random cases"), desc)];
    }
    let spec = Spec { c: if lzma2 { Container::Lzma2 { chunk: None } } else { Container::LzmaHeaderMarker }, o };
    match catch(|| decode_from(&spec, bytes.as_slice(), taken as u64, &[65536], taken + 4096)) {
        Err(p) => vec![CaseOut::viol(cell, format!("dec-panic huge-write @{}", p.site()), p.short_msg(), desc)],
        Ok(d) => {
            if !d.drain.is_ok() || d.drain.out.len() != taken || d.drain.out.iter().any(|&b| b != 0) {
                vec![CaseOut::viol(cell, "mismatch huge-write", format!("{} / {} bytes, {}", d.drain.out.len(), taken, d.drain.err_string()), desc)]
            } else {
                vec![CaseOut::held(cell, true, format!("{desc}: write() took {taken} bytes"))]
            }
        }
    }
}

pub fn run_case(ctx: &Ctx, idx: u64) -> Vec<CaseOut> {
    crate::mt::watched(ctx, idx, "lzma-lzma2-round-trip", run_case_inner)
}

fn run_case_inner(ctx: &Ctx, idx: u64) -> Vec<CaseOut> {
    if idx == 24 || idx == 25 {
        return handmade_case(idx);
    }
    if idx == 40 || idx == 41 {
        return huge_write_case(ctx, idx);
    }
    if (26..40).contains(&idx) {
        return stored_chunk_window_move_case(ctx, idx);
    }
    let case = make_case(ctx, idx);
    let mut dr = Rng::new(case.data_seed);
    let mut data = gen::gen_data(&mut dr, case.fam, case.len);
    // distances exactly at the edge of the dictionary: a random block repeated with period
    // dict-1 / dict / dict+1 / dict+2 (the nearest earlier occurrence is exactly that far away)
    if idx >= STEER && case.fam == Family::Periodic && (idx % 3 == 0) {
        let d = case.spec.o.dict_size as usize;
        let period = d - 1 + (idx as usize / 3) % 4;
        if data.len() > period + 64 && period > 16 {
            let block = dr.bytes(period);
            for (i, b) in data.iter_mut().enumerate() {
                *b = block[i % period];
            }
        }
    }
    // with a preset dictionary make the data refer to it
    if let Some(pd) = &case.spec.o.preset_dict {
        if !data.is_empty() && !pd.is_empty() {
            let n = pd.len().min(data.len()).min(500);
            let s = pd.len() - n;
            data[..n].copy_from_slice(&pd[s..]);
        }
    }
    let partition = if case.write_size > 0 {
        vec![case.write_size; data.len() / case.write_size + 1]
    } else if case.partition_single {
        vec![data.len()]
    } else {
        gen::gen_partition(&mut dr, data.len())
    };
    let sizes = gen::gen_read_sizes(&mut dr);
    let cname = case.spec.c.name();
    let o = &case.spec.o;
    let cell = format!(
        "{}|{}|{}|lclp{}|{}|{}|{}|bias{}",
        cname,
        gen::mode_name(o.mode),
        gen::mf_name(o.mf),
        if o.lc + o.lp <= 4 { "le4" } else { "gt4" },
        gen::dict_class(o.dict_size),
        case.fam.name(),
        gen::len_class(data.len()),
        (case.bias != 0) as u8
    );
    let desc = format!(
        "{} fam={} len={} bias={:#x} writes={} readbuf={:?}",
        case.spec.desc(),
        case.fam.name(),
        data.len(),
        case.bias,
        partition.len(),
        &sizes[..sizes.len().min(4)]
    );
    let dbg = if ctx.is("dbg") { " [dbg]" } else { "" };

    lzma_rust2::verif::set_lz_pos_bias(case.bias);
    let before = lzma_rust2::verif::counters();
    let enc = catch(|| encode(&case.spec, &data, &partition, 0));
    lzma_rust2::verif::set_lz_pos_bias(0);
    let after = lzma_rust2::verif::counters();
    let bytes = match enc {
        Err(p) => {
            return vec![CaseOut::viol(
                cell,
                format!("enc-panic {cname} @{}{dbg}", p.site()),
                p.short_msg(),
                desc,
            )]
        }
        Ok(Err(e)) => {
            return vec![CaseOut::viol(
                cell,
                format!("enc-err {cname} {:?}:{}", e.kind(), e),
                "writer returned an error for in-range options on an infallible sink",
                desc,
            )]
        }
        Ok(Ok(b)) => b,
    };
    // structure of LZMA2 output
    if let Container::Lzma2 { .. } = case.spec.c {
        let w = walk::walk_lzma2(&bytes, 0);
        let wf = walk::check_lzma2_wellformed(&w, o.preset_dict.as_ref().map(|d| !d.is_empty()).unwrap_or(false));
        let ok_end = w.end == Some(bytes.len());
        if let Err(e) = wf {
            let class: String = e.chars().filter(|c| !c.is_ascii_digit()).collect();
            return vec![CaseOut::viol(cell, format!("lzma2-malformed {class}"), e, desc)];
        }
        if !ok_end {
            return vec![CaseOut::viol(cell, "lzma2-malformed trailing-or-unterminated", format!("{:?}", w.end), desc)];
        }
        if w.total_uncompressed() != data.len() {
            return vec![CaseOut::viol(
                cell,
                "lzma2-malformed chunk-size-sum",
                format!("chunks declare {} bytes for {} written", w.total_uncompressed(), data.len()),
                desc,
            )];
        }
    }
    let dec = catch(|| decode_from(&case.spec, bytes.as_slice(), data.len() as u64, &sizes, data.len() + (4 << 20)));
    let d = match dec {
        Err(p) => {
            return vec![CaseOut::viol(
                cell,
                format!("dec-panic {cname} @{}{dbg}", p.site()),
                p.short_msg(),
                desc,
            )]
        }
        Ok(d) => d,
    };
    if !d.drain.is_ok() {
        return vec![CaseOut::viol(
            cell,
            format!("dec-err {cname} {}", d.drain.err_string()),
            format!("own reader rejected own stream after {} bytes", d.drain.out.len()),
            desc,
        )];
    }
    if d.drain.out != data {
        return vec![CaseOut::viol(
            cell,
            format!("mismatch {cname}"),
            first_diff(&d.drain.out, &data),
            desc,
        )];
    }
    // nontrivial: at least one match symbol or one uncompressed chunk was produced
    use lzma_rust2::verif::Kind as K;
    let delta = |k: K| after[k as usize] - before[k as usize];
    let matches = delta(K::MatchSlotLt4)
        + delta(K::MatchSlotLt14)
        + delta(K::MatchSlotGe14)
        + delta(K::Rep0)
        + delta(K::Rep1)
        + delta(K::Rep2)
        + delta(K::Rep3)
        + delta(K::ShortRep);
    let nontrivial = matches > 0 || delta(K::Lzma2ChunkUncompressed) > 0;
    vec![CaseOut::held(cell, nontrivial, desc)]
}

/// Coverage floor of C01: what the steering block alone must have produced.
pub fn floor_missing(counters: &[u64]) -> Vec<&'static str> {
    use lzma_rust2::verif::Kind as K;
    let need = [
        K::Literal,
        K::MatchSlotLt4,
        K::MatchSlotLt14,
        K::MatchSlotGe14,
        K::Rep0,
        K::Rep1,
        K::Rep2,
        K::Rep3,
        K::ShortRep,
        K::EndMarker,
        K::WindowMove,
        K::Normalize,
        K::Lzma2ChunkLzma,
        K::Lzma2ChunkUncompressed,
        K::Lzma2ResetDict,
        K::Lzma2ResetStateProps,
        K::Lzma2ResetState,
        K::Lzma2NoReset,
        K::Lzma2IndependentStart,
    ];
    need.iter()
        .filter(|k| counters[**k as usize] == 0)
        .map(|k| lzma_rust2::verif::KIND_NAMES[*k as usize])
        .collect()
}
