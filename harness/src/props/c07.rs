//! C07 - results do not depend on how callers split writes, flushes and reads.

use lzma_rust2::filter::delta::DeltaWriter;
use lzma_rust2::{EncodeMode, LZMAOptions, MFType};

use crate::case::{catch, stat_add, CaseOut, Ctx};
use crate::fio::{drain, write_partitioned, FaultyRead, ReadPlan};
use crate::gen::{self, Family};
use crate::ours::{decode_bytes, decode_from, decode_lzip_mt, encode, Container, Spec};
use crate::props::c05::{exe_for, mk_bcj_reader, mk_bcj_writer, Comp};
use crate::util::{first_diff, mix, Rng};

pub fn components() -> Vec<Comp> {
    let mut v = vec![
        Comp::Framed(Container::LzmaHeaderSized),
        Comp::Framed(Container::LzmaHeaderMarker),
        Comp::Framed(Container::LzmaRawMarker),
        Comp::Framed(Container::LzmaRawSized),
        Comp::Framed(Container::Lzma2 { chunk: None }),
        Comp::Framed(Container::Lzma2 { chunk: Some(5000) }),
        Comp::Framed(Container::Xz { check: 4, block: None, filters: vec![] }),
        Comp::Framed(Container::Xz { check: 1, block: Some(5000), filters: vec![(3, 3)] }),
        Comp::Framed(Container::Xz { check: 10, block: None, filters: vec![(4, 0)] }),
        Comp::Framed(Container::Xz { check: 0, block: Some(8192), filters: vec![(3, 1), (7, 0)] }),
        Comp::Framed(Container::Lzip { member: None }),
        Comp::Framed(Container::Lzip { member: Some(5000) }),
        Comp::Framed(Container::Lzma2Mt { chunk: 5000, workers: 3 }),
        Comp::Framed(Container::LzipMt { member: 5000, workers: 3 }),
        Comp::Delta(1),
        Comp::Delta(200),
    ];
    for (id, _, _) in crate::props::c02::BCJ_IDS {
        v.push(Comp::Bcj(id));
    }
    v
}

fn base_cases(ctx: &Ctx) -> u64 {
    let reps = if ctx.thorough() { 40 } else { 4 };
    components().len() as u64 * 2 * ctx.scaled(reps)
}

/// Extra cases for the stateful filters alone (cheap): dense opcode soups longer than the filter
/// readers' internal buffer, so that opcode candidates straddle every internal call boundary.
fn filter_cases(ctx: &Ctx) -> u64 {
    let reps = if ctx.thorough() { 300 } else { 24 };
    crate::props::c02::BCJ_IDS.len() as u64 * ctx.scaled(reps)
}

/// Writers whose match-finder window slides (no unit size that would restart the encoder first).
pub fn slide_components() -> Vec<Container> {
    vec![
        Container::LzmaHeaderSized,
        Container::LzmaHeaderMarker,
        Container::LzmaRawMarker,
        Container::Lzma2 { chunk: None },
        Container::Xz { check: 4, block: None, filters: vec![] },
        Container::Xz { check: 1, block: None, filters: vec![(3, 4)] },
        Container::Lzip { member: None },
    ]
}

/// Window-slide cases: inputs longer than the encoder's window buffer, with the write boundaries,
/// tiny writes and flushes placed around the position at which the window moves (found by a probing
/// encode that watches the `window_move` hook counter).
fn slide_cases(ctx: &Ctx) -> u64 {
    let reps = if ctx.thorough() { 40 } else { 3 };
    slide_components().len() as u64 * ctx.scaled(reps)
}

pub fn n_cases(ctx: &Ctx) -> u64 {
    base_cases(ctx) + filter_cases(ctx) + slide_cases(ctx)
}

/// Bytes drawn from a tiny alphabet of opcode bytes and operand-top bytes of the architecture.
fn opcode_soup(r: &mut Rng, id: u8, len: usize) -> Vec<u8> {
    let alphabet: &[u8] = match id {
        0x04 => &[0xE8, 0xE9, 0x00, 0xFF, 0x12, 0x7F, 0x01],
        0x05 => &[0x48, 0x4B, 0x01, 0x00, 0xFD, 0x03],
        0x06 => &[0x10, 0x11, 0x00, 0x05, 0xA0, 0xE0],
        0x07 => &[0xEB, 0x00, 0xFF, 0x10, 0xEA],
        0x08 => &[0xF0, 0xF7, 0xF8, 0xFF, 0x00, 0x12],
        0x09 => &[0x40, 0x7F, 0x00, 0xC0, 0xFF, 0x3F],
        0x0A => &[0x94, 0x97, 0x90, 0x00, 0xFF, 0x1F],
        _ => &[0xEF, 0x6F, 0x17, 0x97, 0x00, 0x80, 0x01],
    };
    (0..len).map(|_| *r.pick(alphabet)).collect()
}

fn opts(r: &mut Rng) -> LZMAOptions {
    let mode = if r.chance(1, 2) { EncodeMode::Fast } else { EncodeMode::Normal };
    let mf = if r.chance(1, 2) { MFType::HC4 } else { MFType::BT4 };
    LZMAOptions::new(*r.pick(&[4096u32, 8192, 65536]), 3, 0, 2, mode, 32, mf, 0)
}

fn gen_input(comp: &Comp, r: &mut Rng, max: usize) -> Vec<u8> {
    let len = r.log_range(1, max as u64) as usize;
    match comp {
        Comp::Bcj(id) => {
            if r.chance(1, 2) {
                return crate::props::c11::dense_code(r, *id, len);
            }
            let exe = exe_for(*id);
            if exe.len() > len + 8192 && r.chance(3, 4) {
                let s = 4096 + r.usize_below(exe.len() - len - 4096);
                exe[s..s + len].to_vec()
            } else {
                gen::gen_data(r, Family::Random, len)
            }
        }
        Comp::Framed(Container::Xz { filters, .. }) if filters.iter().any(|f| f.0 != 3) => gen::gen_data(r, Family::Exe, len),
        _ => {
            let fam = *r.pick(&[Family::Text, Family::Exe, Family::EditRepeat, Family::Sandwich, Family::Periodic, Family::Random]);
            gen::gen_data(r, fam, len)
        }
    }
}

/// Filter output for a write partition.
fn filter_encode(comp: &Comp, data: &[u8], partition: &[usize], flush_every: usize) -> std::io::Result<Vec<u8>> {
    let mut out = Vec::new();
    match comp {
        Comp::Delta(d) => {
            let mut w = DeltaWriter::new(&mut out, *d);
            write_partitioned(&mut w, data, partition, flush_every)?;
        }
        Comp::Bcj(id) => {
            let mut w = mk_bcj_writer(*id, &mut out, 0);
            write_partitioned(&mut w, data, partition, flush_every)?;
        }
        _ => {}
    }
    Ok(out)
}

fn nonempty_writes(partition: &[usize], len: usize) -> usize {
    let mut left = len;
    let mut n = 0;
    for &w in partition {
        let w = w.min(left);
        if w > 0 {
            n += 1;
            left -= w;
        }
    }
    n + (left > 0) as usize
}

fn window_moves() -> u64 {
    lzma_rust2::verif::counters()[lzma_rust2::verif::Kind::WindowMove as usize]
}

/// Probing encode + call histories around the window move(s). Returns the input (cut 60 KB behind
/// the last move used), the offsets of the 512-byte probe writes during which the window moved, and
/// the histories (description, write partition, flush_every).
#[allow(clippy::type_complexity)]
pub fn slide_setup(spec: &Spec, cname: &str, cell: &str, r: &mut Rng) -> Result<(Vec<u8>, usize, Option<usize>, Vec<(String, Vec<usize>, usize)>), CaseOut> {
    use std::io::Write;
    let o = &spec.o;
    // probing encode: 512-byte writes until the window has moved twice
    let probe_len = 1_100_000usize;
    let fam = *r.pick(&[Family::Text, Family::Text, Family::EditRepeat, Family::Sandwich]);
    let data = gen::gen_data(r, fam, probe_len);
    let mut moves_at: Vec<usize> = Vec::new();
    {
        let d = &data;
        let m = &mut moves_at;
        let probe = catch(|| {
            crate::ours::encode_with(spec, std::io::sink(), d.len() as u64, &mut |w: &mut dyn Write| {
                let mut off = 0;
                let mut seen = window_moves();
                while off < d.len() {
                    let n = 512.min(d.len() - off);
                    w.write_all(&d[off..off + n])?;
                    let now = window_moves();
                    if now != seen {
                        seen = now;
                        m.push(off);
                    }
                    off += n;
                }
                Ok(())
            })
        });
        match probe {
            Ok(Ok(_)) => {}
            Ok(Err(e)) => return Err(CaseOut::skip(cell, format!("probing encode failed: {e}"), "")),
            Err(p) => return Err(CaseOut::viol(cell, format!("enc-panic {cname} @{}", p.site()), p.short_msg(), format!("probing encode, 512-byte writes, {}", gen::opts_desc(o)))),
        }
    }
    if moves_at.is_empty() {
        return Err(CaseOut::skip(cell, "the window did not move within 1.1 MB", gen::opts_desc(o)));
    }
    stat_add("window_slide_positions_found", moves_at.len() as u64);
    // The position depends on byte counts only (options and container, not content): a second probe
    // with one-byte writes inside the 512-byte step finds it exactly. `fill` = number of bytes after
    // which the window is full, i.e. the first write call behind it makes the window move.
    let coarse = moves_at[0];
    let mut fill = coarse;
    {
        let d = &data;
        let f = &mut fill;
        let _ = catch(|| {
            crate::ours::encode_with(spec, std::io::sink(), d.len() as u64, &mut |w: &mut dyn Write| {
                w.write_all(&d[..coarse])?;
                let seen = window_moves();
                let mut off = coarse;
                while off < coarse + 513 && off < d.len() {
                    w.write_all(&d[off..off + 1])?;
                    if window_moves() != seen {
                        *f = off;
                        break;
                    }
                    off += 1;
                }
                w.write_all(&d[off + 1..])
            })
        });
    }
    let edge = fill;
    let edge2 = moves_at.get(1).copied();
    let len = (edge2.unwrap_or(edge) + 60_000).min(data.len());
    let mut data = data;
    data.truncate(len);
    // far copies: the bytes around the fill position (the ones still pending in the match finder when
    // a flush arrives there) repeat what lies almost a whole dictionary in front of them, so that
    // candidates at the largest distances the dictionary allows are looked at right after the move
    let dict = o.dict_size as usize;
    for e in [Some(edge), edge2].into_iter().flatten() {
        let dist = dict - r.usize_below(8);
        let from = e.saturating_sub(600);
        let to = (e + 600).min(data.len());
        if from > dist {
            for i in from..to {
                data[i] = data[i - dist];
            }
        }
    }
    let mut plans: Vec<(String, Vec<usize>, usize)> = Vec::new();
    // (a) tiny uniform writes through the region in front of and behind the edge
    for (piece, flush) in [(1usize, 0usize), (2, 0), (3, 0), (7, 0), (1, 1), (3, 2), (64, 0), (64, 1), (200, 3)] {
        let lead = edge.saturating_sub(6000 + r.usize_below(3000));
        let mut p = vec![lead];
        let span = 7000 + 6000 + 1500;
        p.extend(std::iter::repeat(piece).take(span / piece));
        plans.push((format!("lead {lead} then {piece}-byte writes over {span} bytes, flush_every={flush}"), p, flush));
    }
    // (b) one boundary (with or without a flush) exactly at the fill position, one and two bytes
    // around it, and at chosen distances in front of it, then the rest
    for i in 0..14 {
        let back = match i {
            0 | 1 => 0,
            2 => 1,
            3 => 2,
            _ => match r.below(4) {
                0 => r.usize_below(600),
                1 => r.usize_below(5000),
                2 => r.usize_below(64),
                _ => r.usize_below(9000),
            },
        };
        let at = if i == 4 { edge + 1 } else { edge.saturating_sub(back) };
        let flush = (i % 2 == 0) as usize;
        plans.push((format!("write({at}){} write(rest)", if flush == 1 { ", flush," } else { "," }), vec![at], flush));
    }
    // (c) the same around the second move of the window
    if let Some(e2) = edge2 {
        for i in 0..6 {
            let at = (e2 + 512).saturating_sub(r.usize_below(5200));
            let first = r.usize_below(at.max(1));
            let flush = if i % 2 == 0 { 2 } else { 0 };
            plans.push((format!("write({first}), write({}), {}3-byte writes", at - first, if flush > 0 { "flush, " } else { "" }), {
                let mut p = vec![first, at - first];
                p.extend(std::iter::repeat(3).take(700));
                p
            }, flush));
        }
    }
    Ok((data, edge, edge2, plans))
}

pub fn slide_opts(r: &mut Rng) -> LZMAOptions {
    let mode = if r.chance(1, 2) { EncodeMode::Fast } else { EncodeMode::Normal };
    let mf = if r.chance(1, 2) { MFType::HC4 } else { MFType::BT4 };
    // dictionaries of 68 KiB and more matter for LZMA2: below that its window keeps extra history
    let dict = *r.pick(&[4096u32, 4096, 8192, 20000, 69632, 1 << 17]);
    let nice = *r.pick(&[8u32, 16, 32, 64, 273, 273]);
    LZMAOptions::new(dict, 3, 0, 2, mode, nice, mf, 0)
}

fn slide_case(_ctx: &Ctx, k: u64, r: &mut Rng) -> Vec<CaseOut> {
    let comps = slide_components();
    let c = comps[k as usize % comps.len()].clone();
    let o = slide_opts(r);
    let spec = Spec { c: c.clone(), o: o.clone() };
    let cname = format!("{}[window-slide]", Comp::Framed(c.clone()).name());
    let cell = format!("{cname}|writer|window-slide");
    let (data, edge, edge2, plans) = match slide_setup(&spec, &cname, &cell, r) {
        Ok(x) => x,
        Err(o) => return vec![o],
    };
    let data = &data[..];
    let cap = data.len() + (1 << 20);
    let mut out = Vec::new();
    let mut held = 0u64;
    let nplans = plans.len() as u64;
    for (what, partition, flush_every) in plans {
        let desc = format!("{cname} len={} window moved in the write at {edge}{}: {what}; {}", data.len(), edge2.map(|e| format!(" and {e}")).unwrap_or_default(), gen::opts_desc(&o));
        let bytes = match catch(|| encode(&spec, data, &partition, flush_every)) {
            Err(p) => {
                out.push(CaseOut::viol(cell.clone(), format!("enc-panic {cname} @{}", p.site()), p.short_msg(), desc));
                continue;
            }
            Ok(Err(e)) => {
                out.push(CaseOut::viol(cell.clone(), format!("enc-err {cname} {:?}:{}", e.kind(), e), "", desc));
                continue;
            }
            Ok(Ok(b)) => b,
        };
        let d = match catch(|| decode_bytes(&spec, &bytes, data.len() as u64, &[65536], cap)) {
            Ok(d) => d,
            Err(p) => {
                out.push(CaseOut::viol(cell.clone(), format!("dec-panic {cname} @{}", p.site()), p.short_msg(), desc));
                continue;
            }
        };
        if !d.is_ok() {
            out.push(CaseOut::viol(cell.clone(), format!("partition-breaks-stream {cname} {}", d.err_string()), format!("after {} bytes", d.out.len()), desc));
        } else if d.out != data {
            out.push(CaseOut::viol(cell.clone(), format!("partition-changes-content {cname}"), first_diff(&d.out, data), desc));
        } else {
            held += 1;
        }
    }
    stat_add("write_partitions", nplans);
    stat_add("window_slide_partitions", nplans);
    if held > 0 {
        out.push(CaseOut::held(cell, true, format!("{cname} len={}: {held} of {nplans} histories around the window move at {edge} gave the same content", data.len())).times(held));
    }
    out
}

pub fn run_case(ctx: &Ctx, idx: u64) -> Vec<CaseOut> {
    let mut r = Rng::new(mix(ctx.seed, 0xC07_0000 + idx));
    if idx >= base_cases(ctx) + filter_cases(ctx) {
        return slide_case(ctx, idx - base_cases(ctx) - filter_cases(ctx), &mut r);
    }
    if idx >= base_cases(ctx) {
        // reader side of one BCJ filter on an opcode soup (the writer side of the raw filters is
        // covered by the known finding and the base cases)
        let k = (idx - base_cases(ctx)) as usize;
        let id = crate::props::c02::BCJ_IDS[k % crate::props::c02::BCJ_IDS.len()].0;
        let comp = Comp::Bcj(id);
        let len = 4000 + r.usize_below(if ctx.thorough() { 40_000 } else { 14_000 });
        let data = if r.chance(3, 4) { opcode_soup(&mut r, id, len) } else { crate::props::c11::dense_code(&mut r, id, len) };
        let o = opts(&mut r);
        let cname = comp.name();
        return reader_side(ctx, &comp, &cname, &o, &data, &mut r);
    }
    let comps = components();
    let comp = &comps[(idx / 2) as usize % comps.len()];
    let side = idx % 2;
    let o = opts(&mut r);
    let max = if ctx.thorough() { 300_000 } else { 60_000 };
    let data = gen_input(comp, &mut r, max);
    let cname = comp.name();
    if side == 0 {
        writer_side(ctx, comp, &cname, &o, &data, &mut r)
    } else {
        reader_side(ctx, comp, &cname, &o, &data, &mut r)
    }
}

fn writer_side(ctx: &Ctx, comp: &Comp, cname: &str, o: &LZMAOptions, data: &[u8], r: &mut Rng) -> Vec<CaseOut> {
    let mut out = Vec::new();
    let nparts = if ctx.thorough() { 40 } else { 20 };
    let cap = data.len() + (1 << 20);
    let has_bcj = matches!(comp, Comp::Bcj(_)) || matches!(comp, Comp::Framed(Container::Xz { filters, .. }) if filters.iter().any(|f| f.0 != 3));
    // reference: a single write
    let reference: Vec<u8> = match comp {
        Comp::Framed(c) => match encode(&Spec { c: c.clone(), o: o.clone() }, data, &[data.len()], 0) {
            Ok(b) => b,
            Err(e) => return vec![CaseOut::skip(format!("{cname}|writer"), format!("single-write encode failed: {e}"), "")],
        },
        _ => filter_encode(comp, data, &[data.len()], 0).unwrap_or_default(),
    };
    let mut held = 0u64;
    let mut shapes = std::collections::BTreeSet::new();
    for pi in 0..nparts {
        let partition = gen::gen_partition(r, data.len());
        let flush_every = if r.chance(1, 3) { 1 + r.usize_below(6) } else { 0 };
        let writes = nonempty_writes(&partition, data.len());
        let tag = if has_bcj && writes > 1 { "[bcj-filter+multi-write]" } else { "" };
        let empties = partition.iter().filter(|&&n| n == 0).count();
        let shape = format!(
            "{}|{}|{}",
            match partition.len() {
                0..=1 => "one",
                2..=20 => "few",
                _ => "many",
            },
            if flush_every > 0 { "flushes" } else { "noflush" },
            if empties > 0 { "empty-writes" } else { "no-empty" }
        );
        shapes.insert(shape.clone());
        let cell = format!("{cname}|writer|{shape}");
        let desc = format!(
            "{cname} {:?} len={} partition#{pi}: {} writes ({} non-empty, {} empty) first={:?} flush_every={flush_every} {}",
            comp,
            data.len(),
            partition.len(),
            writes,
            empties,
            &partition[..partition.len().min(6)],
            gen::opts_desc(o)
        );
        match comp {
            Comp::Framed(c) => {
                let spec = Spec { c: c.clone(), o: o.clone() };
                let enc = catch(|| encode(&spec, data, &partition, flush_every));
                let bytes = match enc {
                    Err(p) => {
                        out.push(CaseOut::viol(cell, format!("enc-panic {cname}{tag} @{}", p.site()), p.short_msg(), desc));
                        continue;
                    }
                    Ok(Err(e)) => {
                        out.push(CaseOut::viol(cell, format!("enc-err {cname}{tag} {:?}:{}", e.kind(), e), "", desc));
                        continue;
                    }
                    Ok(Ok(b)) => b,
                };
                let d = match catch(|| decode_bytes(&spec, &bytes, data.len() as u64, &[65536], cap)) {
                    Ok(d) => d,
                    Err(p) => {
                        out.push(CaseOut::viol(cell, format!("dec-panic {cname}{tag} @{}", p.site()), p.short_msg(), desc));
                        continue;
                    }
                };
                if !d.is_ok() {
                    out.push(CaseOut::viol(cell, format!("partition-breaks-stream {cname}{tag} {}", d.err_string()), format!("after {} bytes", d.out.len()), desc));
                    continue;
                }
                if d.out != data {
                    out.push(CaseOut::viol(cell, format!("partition-changes-content {cname}{tag}"), first_diff(&d.out, data), desc));
                    continue;
                }
                held += 1;
            }
            _ => {
                // filter writers: the filtered bytes are a pure function of the concatenation
                let enc = catch(|| filter_encode(comp, data, &partition, flush_every));
                match enc {
                    Err(p) => out.push(CaseOut::viol(cell, format!("enc-panic {cname}{tag} @{}", p.site()), p.short_msg(), desc)),
                    Ok(Err(e)) => out.push(CaseOut::viol(cell, format!("enc-err {cname}{tag} {:?}:{}", e.kind(), e), "", desc)),
                    Ok(Ok(b)) => {
                        if b != reference {
                            out.push(CaseOut::viol(cell, format!("partition-changes-filtered-bytes {cname}{tag}"), first_diff(&b, &reference), desc));
                        } else {
                            held += 1;
                        }
                    }
                }
            }
        }
    }
    stat_add("write_partitions", nparts as u64);
    if held > 0 {
        out.push(
            CaseOut::held(
                format!("{cname}|writer|{} shapes", shapes.len()),
                true,
                format!("{cname} len={}: {held} of {nparts} partitions gave the same content", data.len()),
            )
            .times(held),
        );
    }
    out
}

fn reader_side(ctx: &Ctx, comp: &Comp, cname: &str, o: &LZMAOptions, data: &[u8], r: &mut Rng) -> Vec<CaseOut> {
    let mut out = Vec::new();
    let cap = data.len() + (1 << 20);
    // the stream: single write (or liblzma for some XZ cases)
    let stream: Vec<u8> = match comp {
        Comp::Framed(c) => {
            // chunked containers need several writes to split at all
            let has_bcj = matches!(c, Container::Xz { filters, .. } if filters.iter().any(|f| f.0 != 3));
            let part = if has_bcj { vec![data.len()] } else { vec![5000usize; data.len() / 5000 + 1] };
            match encode(&Spec { c: c.clone(), o: o.clone() }, data, &part, 0) {
                Ok(b) => b,
                Err(e) => return vec![CaseOut::skip(format!("{cname}|reader"), format!("stream maker failed: {e}"), "")],
            }
        }
        _ => filter_encode(comp, data, &[data.len()], 0).unwrap_or_default(),
    };
    let read_with = |sizes: &[usize], plan: ReadPlan| -> crate::fio::Drain {
        match comp {
            Comp::Framed(Container::LzipMt { workers, .. }) => {
                let _ = plan;
                decode_lzip_mt(std::io::Cursor::new(stream.clone()), *workers, sizes, cap).drain
            }
            Comp::Framed(c) => decode_from(&Spec { c: c.clone(), o: o.clone() }, FaultyRead::new(&stream, plan), data.len() as u64, sizes, cap).drain,
            Comp::Delta(d) => {
                let mut rd = lzma_rust2::filter::delta::DeltaReader::new(FaultyRead::new(&stream, plan), *d);
                drain(&mut rd, sizes, cap, 8)
            }
            Comp::Bcj(id) => {
                let mut rd = mk_bcj_reader(*id, FaultyRead::new(&stream, plan), 0);
                drain(&mut rd, sizes, cap, 8)
            }
            Comp::Bcj2 | Comp::XzMulti => unreachable!(),
        }
    };
    let reference = match catch(|| read_with(&[65536], ReadPlan::default())) {
        Ok(d) => d,
        Err(p) => return vec![CaseOut::viol(format!("{cname}|reader"), format!("dec-panic {cname} @{}", p.site()), p.short_msg(), format!("{cname} len={}", data.len()))],
    };
    if !reference.is_ok() {
        return vec![CaseOut::skip(format!("{cname}|reader"), format!("reference read fails ({}); judged by C01/C02", reference.err_string()), "")];
    }
    let nseq = if ctx.thorough() { 60 } else { 24 };
    let mut held = 0u64;
    for si in 0..nseq {
        // sequences with and without zero-length reads
        let sizes: Vec<usize> = match si % 10 {
            // reads that end exactly at / one byte around the boundaries the readers keep internally:
            // the 5000-byte units of the chunked containers, the dictionary size (the LZ decoder's
            // circular buffer wraps there), the filter readers' 4096-byte buffer
            8 => {
                let u = *r.pick(&[5000usize, o.dict_size as usize, 4096, 8192, 65536]);
                vec![u, 0, 1, u - 1]
            }
            9 => {
                let u = *r.pick(&[5000usize, o.dict_size as usize, 4096, 8192, 65536]);
                vec![u - 1, 1, 0, u + 1, u - 1]
            }
            0 => vec![1],
            1 => vec![0, 1],
            2 => vec![*r.pick(&[2usize, 3, 5, 7, 13]), 0],
            3 => vec![4095, 0, 4096, 4097],
            4 => vec![data.len() + 100],
            5 => (0..9).map(|_| r.usize_below(40)).collect(),
            6 => {
                // a zero-length read exactly before call k
                let k = r.usize_below(50);
                let mut v = vec![*r.pick(&[1usize, 100, 5000]); k + 1];
                v[k] = 0;
                v
            }
            _ => gen::gen_read_sizes(r),
        };
        if sizes.iter().all(|&s| s == 0) {
            continue;
        }
        let zeros = sizes.iter().any(|&s| s == 0);
        let cell = format!("{cname}|reader|{}", if zeros { "with-zero-length-reads" } else { "nonzero" });
        let desc = format!("{cname} {:?} len={} stream={}B read sizes {:?} {}", comp, data.len(), stream.len(), &sizes[..sizes.len().min(10)], gen::opts_desc(o));
        let plan = if si % 3 == 0 { ReadPlan { short: vec![*r.pick(&[1usize, 3, 100])], ..Default::default() } } else { ReadPlan::default() };
        match catch(|| read_with(&sizes, plan)) {
            Err(p) => out.push(CaseOut::viol(cell, format!("dec-panic {cname} @{}", p.site()), p.short_msg(), desc)),
            Ok(d) => {
                let trig = if zeros { "zero-length-read" } else { "buffer-sizes" };
                if !d.is_ok() {
                    out.push(CaseOut::viol(cell, format!("{trig}-breaks-stream {cname} {}", d.err_string()), format!("after {} of {} bytes", d.out.len(), reference.out.len()), desc));
                } else if d.out != reference.out {
                    let rel = if reference.out.starts_with(&d.out) { "early end" } else { "different bytes" };
                    out.push(CaseOut::viol(cell, format!("{trig}-changes-bytes {cname} ({rel})"), first_diff(&d.out, &reference.out), desc));
                } else {
                    held += 1;
                }
            }
        }
    }
    stat_add("read_sequences", nseq as u64);
    if reference.out != data {
        out.push(CaseOut::skip(format!("{cname}|reader"), "reference read differs from the input (judged by C01/C02/C11)", ""));
    }
    if held > 0 {
        out.push(CaseOut::held(format!("{cname}|reader"), true, format!("{cname} len={}: {held} buffer sequences gave identical bytes", data.len())).times(held));
    }
    out
}
