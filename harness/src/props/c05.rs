//! C05 - truncation and I/O faults surface as errors, never as wrong or endless data.

use std::io::{ErrorKind, Read, Write};

use lzma_rust2::filter::bcj::{BCJReader, BCJWriter};
use lzma_rust2::filter::bcj2::BCJ2Reader;
use lzma_rust2::filter::delta::{DeltaReader, DeltaWriter};
use lzma_rust2::{EncodeMode, LZMAOptions, MFType};

use crate::bcj2enc;
use crate::case::{catch, stat_add, CaseOut, Ctx};
use crate::fio::{drain, Drain, FaultyRead, FaultyWrite, ReadPlan, WritePlan};
use crate::gen::{self, Family};
use crate::ours::{decode_from, encode, encode_to, Container, Spec};
use crate::util::{mix, Rng};

pub const KINDS: [ErrorKind; 3] = [ErrorKind::ConnectionReset, ErrorKind::TimedOut, ErrorKind::PermissionDenied];

#[derive(Clone, Debug, PartialEq)]
pub enum Comp {
    Framed(Container),
    Delta(usize),
    Bcj(u8),
    Bcj2,
    /// two or three concatenated XZ streams with stream padding, read by `XZReader` in
    /// multi-stream mode (reader side only)
    XzMulti,
}

impl Comp {
    pub fn name(&self) -> String {
        match self {
            Comp::Framed(c) => c.name().to_string(),
            Comp::Delta(_) => "delta".into(),
            Comp::Bcj(id) => format!("bcj-{}", crate::props::c02::BCJ_IDS.iter().find(|b| b.0 == *id).map(|b| b.2).unwrap_or("?")),
            Comp::Bcj2 => "bcj2".into(),
            Comp::XzMulti => "xz-multi-stream".into(),
        }
    }
    pub fn framed(&self) -> bool {
        matches!(self, Comp::Framed(_) | Comp::Bcj2 | Comp::XzMulti)
    }
}

pub fn components() -> Vec<Comp> {
    let mut v = vec![
        Comp::Framed(Container::LzmaHeaderSized),
        Comp::Framed(Container::LzmaHeaderMarker),
        Comp::Framed(Container::LzmaRawMarker),
        Comp::Framed(Container::LzmaRawSized),
        Comp::Framed(Container::Lzma2 { chunk: None }),
        Comp::Framed(Container::Lzma2 { chunk: Some(4096) }),
        Comp::Framed(Container::Xz { check: 1, block: None, filters: vec![] }),
        Comp::Framed(Container::Xz { check: 4, block: Some(4096), filters: vec![(3, 1)] }),
        Comp::Framed(Container::Xz { check: 10, block: None, filters: vec![(4, 0)] }),
        Comp::Framed(Container::Xz { check: 0, block: None, filters: vec![] }),
        Comp::Framed(Container::Lzip { member: None }),
        Comp::Framed(Container::Lzip { member: Some(4096) }),
        Comp::Delta(1),
        Comp::Delta(7),
        Comp::Bcj2,
        Comp::XzMulti,
    ];
    for (id, _, _) in crate::props::c02::BCJ_IDS {
        v.push(Comp::Bcj(id));
    }
    v
}

pub const SWEEPS: [&str; 5] = ["truncate", "read-error", "short+interrupted-reads", "write-error", "short+interrupted-writes"];

pub fn n_cases(ctx: &Ctx) -> u64 {
    let reps = if ctx.thorough() { 90 } else { 5 };
    components().len() as u64 * SWEEPS.len() as u64 * ctx.scaled(reps)
}

fn small_opts(r: &mut Rng) -> LZMAOptions {
    let mode = if r.chance(1, 2) { EncodeMode::Fast } else { EncodeMode::Normal };
    let mf = if r.chance(1, 2) { MFType::HC4 } else { MFType::BT4 };
    LZMAOptions::new(4096, 3, 0, 2, mode, 32, mf, 0)
}

pub struct Stream {
    pub bytes: Vec<u8>,
    pub orig: Vec<u8>,
    /// extra streams for BCJ2: call, jump, rc
    pub extra: Vec<Vec<u8>>,
    /// XzMulti: (file length, content length) of every proper prefix of the file that is a
    /// complete multi-stream file of its own (end of a stream plus 4k bytes of padding)
    pub valid_prefixes: Vec<(usize, usize)>,
}

fn bcj_writer_single(id: u8, data: &[u8]) -> Vec<u8> {
    let mut out = Vec::new();
    {
        let mut w = mk_bcj_writer(id, &mut out, 0);
        w.write_all(data).unwrap();
    }
    out
}

pub fn mk_bcj_writer<W: Write>(id: u8, w: W, off: usize) -> BCJWriter<W> {
    match id {
        0x04 => BCJWriter::new_x86(w, off),
        0x05 => BCJWriter::new_ppc(w, off),
        0x06 => BCJWriter::new_ia64(w, off),
        0x07 => BCJWriter::new_arm(w, off),
        0x08 => BCJWriter::new_arm_thumb(w, off),
        0x09 => BCJWriter::new_sparc(w, off),
        0x0A => BCJWriter::new_arm64(w, off),
        _ => BCJWriter::new_riscv(w, off),
    }
}

pub fn mk_bcj_reader<R: Read>(id: u8, r: R, off: usize) -> BCJReader<R> {
    match id {
        0x04 => BCJReader::new_x86(r, off),
        0x05 => BCJReader::new_ppc(r, off),
        0x06 => BCJReader::new_ia64(r, off),
        0x07 => BCJReader::new_arm(r, off),
        0x08 => BCJReader::new_arm_thumb(r, off),
        0x09 => BCJReader::new_sparc(r, off),
        0x0A => BCJReader::new_arm64(r, off),
        _ => BCJReader::new_riscv(r, off),
    }
}

pub fn exe_for(id: u8) -> &'static [u8] {
    let name = match id {
        0x04 => "x86",
        0x05 => "ppc",
        0x06 => "ia64",
        0x07 => "arm",
        0x08 => "arm-thumb",
        0x09 => "sparc",
        0x0A => "arm64",
        _ => "riscv",
    };
    gen::corpus().exes.iter().find(|(n, _)| *n == name).map(|(_, b)| b.as_slice()).unwrap_or(&[])
}

fn make_stream(comp: &Comp, r: &mut Rng, o: &LZMAOptions) -> Stream {
    let len = r.range(200, 9000) as usize;
    match comp {
        Comp::Framed(c) => {
            let fam = *r.pick(&[Family::Text, Family::Exe, Family::EditRepeat, Family::Sandwich, Family::Random, Family::Random]);
            let orig = gen::gen_data(r, fam, len);
            let spec = Spec { c: c.clone(), o: o.clone() };
            // one write per 4096 bytes so that chunked/blocked/membered containers really split;
            // BCJ chains get a single write (known BCJWriter limitation)
            let has_bcj = matches!(c, Container::Xz { filters, .. } if filters.iter().any(|f| f.0 != 3));
            let part = if has_bcj { vec![orig.len()] } else { vec![4096; orig.len() / 4096 + 1] };
            let bytes = encode(&spec, &orig, &part, 0).expect("stream maker");
            Stream { bytes, orig, extra: vec![], valid_prefixes: vec![] }
        }
        Comp::Delta(d) => {
            let orig = gen::gen_data(r, Family::Periodic, len);
            let mut out = Vec::new();
            {
                let mut w = DeltaWriter::new(&mut out, *d);
                w.write_all(&orig).unwrap();
            }
            Stream { bytes: out, orig, extra: vec![], valid_prefixes: vec![] }
        }
        Comp::Bcj(id) => {
            let exe = exe_for(*id);
            let orig = if exe.len() > 20_000 {
                let s = 4096 + r.usize_below(exe.len() - 20_000);
                exe[s..s + len].to_vec()
            } else {
                gen::gen_data(r, Family::Random, len)
            };
            let bytes = bcj_writer_single(*id, &orig);
            Stream { bytes, orig, extra: vec![], valid_prefixes: vec![] }
        }
        Comp::XzMulti => {
            let n = 2 + r.usize_below(2);
            let mut bytes = Vec::new();
            let mut orig = Vec::new();
            let mut valid_prefixes = Vec::new();
            for i in 0..n {
                let part_len = match r.below(4) {
                    0 => 0,
                    _ => r.range(50, 4000) as usize,
                };
                let fam = *r.pick(&[Family::Text, Family::Exe, Family::Random]);
                let d = gen::gen_data(r, fam, part_len);
                let spec = Spec { c: Container::Xz { check: *r.pick(&[0u8, 1, 4, 10]), block: if r.chance(1, 2) { Some(4096) } else { None }, filters: vec![] }, o: o.clone() };
                let b = encode(&spec, &d, &[d.len()], 0).expect("stream maker");
                bytes.extend_from_slice(&b);
                orig.extend_from_slice(&d);
                let pad = *r.pick(&[0usize, 0, 4, 8, 12]);
                if i + 1 < n || r.chance(1, 2) {
                    for k in 0..=pad / 4 {
                        if i + 1 < n || k < pad / 4 {
                            valid_prefixes.push((bytes.len() + 4 * k, orig.len()));
                        }
                    }
                    bytes.extend(std::iter::repeat(0u8).take(pad));
                }
            }
            valid_prefixes.retain(|p| p.0 < bytes.len());
            Stream { bytes, orig, extra: vec![], valid_prefixes }
        }
        Comp::Bcj2 => {
            let exe = exe_for(0x04);
            let orig = if exe.len() > 20_000 {
                let s = 4096 + r.usize_below(exe.len() - 20_000);
                exe[s..s + len].to_vec()
            } else {
                gen::gen_data(r, Family::Random, len)
            };
            let s = bcj2enc::encode(&orig, r, 1, 2);
            Stream {
                bytes: s.main,
                orig,
                extra: vec![s.call, s.jump, s.rc],
                valid_prefixes: vec![],
            }
        }
    }
}

/// Decodes through the component's reader with the main source under `plan` (BCJ2: the faulted
/// stream is selected by `which`). Returns the drain and whether the fault was delivered.
fn read_with(comp: &Comp, st: &Stream, o: &LZMAOptions, plan: ReadPlan, sizes: &[usize], which: usize) -> (Drain, bool, bool, usize) {
    let cap = st.orig.len() + (4 << 20);
    match comp {
        Comp::Framed(c) => {
            let spec = Spec { c: c.clone(), o: o.clone() };
            let src = FaultyRead::new(&st.bytes, plan);
            let flag = std::sync::Arc::new(std::sync::atomic::AtomicBool::new(false));
            let mut src = src;
            src.err_flag = Some(flag.clone());
            let d = decode_from(&spec, src, st.orig.len() as u64, sizes, cap);
            let (eof, calls) = d.inner.as_ref().map(|s| (s.delivered_eof, s.calls)).unwrap_or((false, 0));
            (d.drain, flag.load(std::sync::atomic::Ordering::SeqCst), eof, calls)
        }
        Comp::Delta(dist) => {
            let mut rd = DeltaReader::new(FaultyRead::new(&st.bytes, plan), *dist);
            let d = drain(&mut rd, sizes, cap, 64);
            let s = rd.into_inner();
            (d, s.delivered_err, s.delivered_eof, s.calls)
        }
        Comp::Bcj(id) => {
            let mut rd = mk_bcj_reader(*id, FaultyRead::new(&st.bytes, plan), 0);
            let d = drain(&mut rd, sizes, cap, 64);
            let s = rd.into_inner();
            (d, s.delivered_err, s.delivered_eof, s.calls)
        }
        Comp::XzMulti => {
            let mut rd = lzma_rust2::XZReader::new(FaultyRead::new(&st.bytes, plan), true);
            let d = drain(&mut rd, sizes, cap, 64);
            let s = rd.into_inner();
            (d, s.delivered_err, s.delivered_eof, s.calls)
        }
        Comp::Bcj2 => {
            let flag = std::sync::Arc::new(std::sync::atomic::AtomicBool::new(false));
            let all: [&Vec<u8>; 4] = [&st.bytes, &st.extra[0], &st.extra[1], &st.extra[2]];
            let mut inputs = Vec::new();
            for (i, b) in all.iter().enumerate() {
                let mut fr = FaultyRead::new(b, if i == which { plan.clone() } else { ReadPlan::default() });
                if i == which {
                    fr.err_flag = Some(flag.clone());
                }
                inputs.push(fr);
            }
            let mut rd = BCJ2Reader::new(inputs, st.orig.len() as u64);
            let d = drain(&mut rd, sizes, cap, 64);
            (d, flag.load(std::sync::atomic::Ordering::SeqCst), false, 0)
        }
    }
}

pub fn run_case(ctx: &Ctx, idx: u64) -> Vec<CaseOut> {
    let comps = components();
    let nsw = SWEEPS.len() as u64;
    let comp = &comps[(idx / nsw) as usize % comps.len()];
    let sweep = SWEEPS[(idx % nsw) as usize];
    let rep = idx / (nsw * comps.len() as u64);
    let mut r = Rng::new(mix(ctx.seed, 0xC05_0000 + idx));
    let o = small_opts(&mut r);
    let st = make_stream(comp, &mut r, &o);
    let cname = comp.name();
    let base_desc = format!("{cname} rep{rep} stream={}B orig={}B {:?}", st.bytes.len(), st.orig.len(), comp);
    match sweep {
        "truncate" => truncate_sweep(comp, &st, &o, &cname, &base_desc, &mut r),
        "read-error" => read_error_sweep(comp, &st, &o, &cname, &base_desc, &mut r),
        "short+interrupted-reads" => short_read_sweep(comp, &st, &o, &cname, &base_desc, &mut r),
        "write-error" => write_sweep(comp, &st, &o, &cname, &base_desc, &mut r, true),
        _ => write_sweep(comp, &st, &o, &cname, &base_desc, &mut r, false),
    }
}

fn truncate_sweep(comp: &Comp, st: &Stream, o: &LZMAOptions, cname: &str, base: &str, r: &mut Rng) -> Vec<CaseOut> {
    let mut out = Vec::new();
    if !comp.framed() {
        return vec![CaseOut::skip(format!("{cname}|truncate"), "unframed filter input: a prefix is a valid shorter input", base)];
    }
    let nstreams = if *comp == Comp::Bcj2 { 4 } else { 1 };
    for which in 0..nstreams {
        let target_len = if which == 0 { st.bytes.len() } else { st.extra[which - 1].len() };
        let (mut errs, mut same, mut viols) = (0u64, 0u64, 0u64);
        let one_byte = r.chance(1, 2);
        for cut in 0..target_len {
            let mut plan = ReadPlan { truncate_at: Some(cut), ..Default::default() };
            if one_byte {
                plan.short = vec![1];
            }
            let sizes = [*r.pick(&[1usize, 7, 4096, 65536])];
            let res = catch(|| read_with(comp, st, o, plan.clone(), &sizes, which));
            let desc = format!("{base} truncated stream#{which} at {cut} of {target_len} one_byte_source={one_byte} readbuf={sizes:?}");
            let cell = format!("{cname}|truncate");
            match res {
                Err(p) => {
                    out.push(CaseOut::skip(cell, format!("reader panicked (judged by C06): {}", p.site()), desc));
                }
                Ok((d, _, _, _)) => {
                    if d.bound_hit == Some("output") {
                        viols += 1;
                        if viols <= 2 {
                            out.push(CaseOut::viol(cell, format!("endless-output {cname} truncated"), format!("produced more than original + 4 MiB ({} bytes)", d.out.len()), desc));
                        }
                        continue;
                    }
                    match &d.end {
                        Err(_) => errs += 1,
                        Ok(()) => {
                            // LZIP: cut inside the magic of a later member is accepted either way
                            if d.out == st.orig {
                                same += 1;
                            } else if st.valid_prefixes.iter().any(|p| p.0 == cut && d.out.len() == p.1 && st.orig.starts_with(&d.out)) {
                                // the cut file is a complete multi-stream file of its own
                                same += 1;
                            } else if matches!(comp, Comp::Framed(Container::Lzip { .. })) && lzip_cut_tolerated(&st.bytes, cut, &d.out, &st.orig) {
                                same += 1;
                            } else {
                                viols += 1;
                                if viols <= 2 {
                                    let rel = if st.orig.starts_with(&d.out) { "a proper prefix" } else { "different bytes" };
                                    let how = if cut == 0 { "truncated-to-zero-bytes" } else { "truncated" };
                                    out.push(CaseOut::viol(
                                        cell,
                                        format!("ok-with-wrong-data {cname} {how} ({rel})"),
                                        format!("Ok with {} bytes, original has {}", d.out.len(), st.orig.len()),
                                        desc,
                                    ));
                                }
                            }
                        }
                    }
                }
            }
        }
        stat_add("truncation_points", target_len as u64);
        if errs + same > 0 {
            out.push(
                CaseOut::held(
                    format!("{cname}|truncate|stream{which}"),
                    errs > 0,
                    format!("{base}: every cut 0..{target_len}: {errs} Err, {same} Ok(original or tolerated)"),
                )
                .times(errs + same),
            );
        }
    }
    out
}

fn lzip_cut_tolerated(bytes: &[u8], cut: usize, out: &[u8], orig: &[u8]) -> bool {
    if let Ok(ms) = crate::walk::walk_lzip(bytes) {
        let mut produced = 0usize;
        for m in &ms {
            // cut inside the 4 magic bytes of this (later) member and output = members before it
            if m.start > 0 && cut >= m.start && cut < m.start + 4 && out.len() == produced && orig.starts_with(out) {
                return true;
            }
            produced += m.data_size as usize;
        }
    }
    false
}

fn read_error_sweep(comp: &Comp, st: &Stream, o: &LZMAOptions, cname: &str, base: &str, r: &mut Rng) -> Vec<CaseOut> {
    let mut out = Vec::new();
    let nstreams = if *comp == Comp::Bcj2 { 4 } else { 1 };
    for which in 0..nstreams {
        let one_byte = r.chance(1, 2);
        let mut plan0 = ReadPlan::default();
        if one_byte {
            plan0.short = vec![1];
        }
        let sizes = [*r.pick(&[1usize, 13, 4096, 65536])];
        // dry run: how many read calls does the reader make?
        let (_, _, _, calls) = read_with(comp, st, o, plan0.clone(), &sizes, which);
        let target_len = if which == 0 { st.bytes.len() } else { st.extra[which - 1].len() };
        // error positions: every call index (1-byte sources: equals byte positions) or every byte
        let positions: Vec<usize> = if calls > 0 && calls <= 12_000 { (0..calls).collect() } else { (0..target_len).collect() };
        let by_call = calls > 0 && calls <= 12_000;
        let (mut held, mut not_reached, mut viols) = (0u64, 0u64, 0u64);
        for &p in &positions {
            let kind = KINDS[p % 3];
            let mut plan = plan0.clone();
            if by_call {
                plan.err_at_call = Some((p, kind));
            } else {
                plan.err_at_byte = Some((p, kind));
            }
            let desc = format!("{base} source error {kind:?} at {} {p} (stream#{which}) one_byte_source={one_byte} readbuf={sizes:?}", if by_call { "call" } else { "byte" });
            let cell = format!("{cname}|read-error");
            match catch(|| read_with(comp, st, o, plan.clone(), &sizes, which)) {
                Err(pn) => out.push(CaseOut::skip(cell, format!("reader panicked (judged by C06): {}", pn.site()), desc)),
                Ok((d, delivered, _, _)) => {
                    if !delivered {
                        not_reached += 1;
                        continue;
                    }
                    if d.bound_hit.is_some() {
                        viols += 1;
                        if viols <= 2 {
                            out.push(CaseOut::viol(cell, format!("endless-output {cname} read-error"), format!("{:?}", d.bound_hit), desc));
                        }
                        continue;
                    }
                    match &d.end {
                        Err(e) if e.kind() == kind => held += 1,
                        Err(e) => {
                            viols += 1;
                            if viols <= 2 {
                                out.push(CaseOut::viol(cell, format!("error-kind-lost {cname}"), format!("source error {kind:?} surfaced as {:?}: {e}", e.kind()), desc));
                            }
                        }
                        Ok(()) => {
                            viols += 1;
                            if viols <= 2 {
                                let rel = if d.out == st.orig { "the original bytes" } else { "different bytes" };
                                out.push(CaseOut::viol(
                                    cell,
                                    format!("error-swallowed {cname} (Ok with {rel})"),
                                    format!("the source failed with {kind:?} but the reader returned Ok with {} bytes", d.out.len()),
                                    desc,
                                ));
                            }
                        }
                    }
                }
            }
        }
        stat_add("read_error_points", positions.len() as u64);
        stat_add("read_error_not_reached", not_reached);
        if held > 0 {
            out.push(
                CaseOut::held(
                    format!("{cname}|read-error|stream{which}"),
                    true,
                    format!("{base}: {} positions: {held} Err(kind preserved), {not_reached} not reached", positions.len()),
                )
                .times(held),
            );
        }
    }
    out
}

fn short_read_sweep(comp: &Comp, st: &Stream, o: &LZMAOptions, cname: &str, base: &str, r: &mut Rng) -> Vec<CaseOut> {
    let mut out = Vec::new();
    let (mut held, mut viols) = (0u64, 0u64);
    for t in 0..60 {
        let mut plan = ReadPlan::default();
        plan.short = match t % 5 {
            0 => vec![1],
            1 => vec![1, 2, 3],
            2 => (0..7).map(|_| 1 + r.usize_below(20)).collect(),
            3 => vec![*r.pick(&[2usize, 3, 5, 11])],
            _ => vec![],
        };
        let with_int = t % 2 == 1;
        if with_int {
            let n = 1 + r.usize_below(6);
            plan.interrupted_at = (0..n).map(|_| r.usize_below(400)).collect();
        }
        let sizes = gen::gen_read_sizes(r).into_iter().filter(|&s| s > 0).collect::<Vec<_>>();
        let desc = format!("{base} short={:?} interrupted_at={:?} readbuf={:?}", plan.short, plan.interrupted_at, &sizes[..sizes.len().min(3)]);
        let cell = format!("{cname}|short-reads{}", if with_int { "+interrupted" } else { "" });
        match catch(|| read_with(comp, st, o, plan.clone(), &sizes, t % 4)) {
            Err(pn) => out.push(CaseOut::skip(cell, format!("reader panicked (judged by C06): {}", pn.site()), desc)),
            Ok((d, _, _, _)) => {
                let ok = d.is_ok() && d.out == st.orig;
                if ok {
                    held += 1;
                } else {
                    viols += 1;
                    if viols <= 3 {
                        let what = if !d.is_ok() {
                            format!("fails: {}", d.err_string())
                        } else {
                            "different bytes".to_string()
                        };
                        let trig = if with_int { "interrupted" } else { "short-reads" };
                        let class = if !d.is_ok() { format!("fails {}", d.err_string()) } else { "different bytes".into() };
                        out.push(CaseOut::viol(cell, format!("{trig}-changes-result {cname}: {class}"), what, desc));
                    }
                }
            }
        }
    }
    if held > 0 {
        out.push(CaseOut::held(format!("{cname}|short-reads"), true, format!("{base}: {held} short/interrupted source plans gave identical bytes")).times(held));
    }
    out
}

/// Encodes through the component's writer into a faulty sink.
fn write_with(comp: &Comp, st: &Stream, o: &LZMAOptions, plan: WritePlan, partition: &[usize]) -> (std::io::Result<()>, FaultyWrite) {
    let sink = FaultyWrite::new(plan);
    match comp {
        Comp::Framed(c) => {
            let spec = Spec { c: c.clone(), o: o.clone() };
            // the sink must be observable after a failure: write through a &mut
            let mut s = sink;
            let res = encode_to(&spec, &mut s, &st.orig, partition, 0).map(|_| ());
            (res, s)
        }
        Comp::Delta(d) => {
            let mut s = sink;
            let res = {
                let mut w = DeltaWriter::new(&mut s, *d);
                crate::fio::write_partitioned(&mut w, &st.orig, partition, 0)
            };
            (res, s)
        }
        Comp::Bcj(id) => {
            let mut s = sink;
            let res = {
                let mut w = mk_bcj_writer(*id, &mut s, 0);
                crate::fio::write_partitioned(&mut w, &st.orig, partition, 0)
            };
            (res, s)
        }
        Comp::Bcj2 | Comp::XzMulti => (Ok(()), sink),
    }
}

fn write_sweep(comp: &Comp, st: &Stream, o: &LZMAOptions, cname: &str, base: &str, r: &mut Rng, errors: bool) -> Vec<CaseOut> {
    if *comp == Comp::Bcj2 {
        return vec![CaseOut::skip(format!("{cname}|write"), "the crate has no BCJ2 writer", base)];
    }
    if *comp == Comp::XzMulti {
        return vec![CaseOut::skip(format!("{cname}|write"), "reader-side component (the writer is covered by the xz components)", base)];
    }
    let mut out = Vec::new();
    // single write for BCJ components (the multi-write defect is a separate known finding)
    let single = matches!(comp, Comp::Bcj(_)) || matches!(comp, Comp::Framed(Container::Xz { filters, .. }) if filters.iter().any(|f| f.0 != 3));
    let partition: Vec<usize> = if single { vec![st.orig.len()] } else { vec![4096; st.orig.len() / 4096 + 1] };
    let (ref_res, ref_sink) = write_with(comp, st, o, WritePlan::default(), &partition);
    if ref_res.is_err() {
        return vec![CaseOut::skip(format!("{cname}|write"), "reference encode failed", base)];
    }
    let reference = ref_sink.out;
    let total_calls = ref_sink.calls;
    if errors {
        // every write-call index (capped), sink fails persistently from there
        let idxs: Vec<usize> = if total_calls <= 4000 {
            (0..total_calls).collect()
        } else {
            let mut v: Vec<usize> = (0..1000).collect();
            v.extend((0..1500).map(|_| r.usize_below(total_calls)));
            v.extend(total_calls - 500..total_calls);
            v
        };
        let (mut held, mut viols) = (0u64, 0u64);
        for &j in &idxs {
            let kind = KINDS[j % 3];
            let plan = WritePlan { err_at_call: Some((j, kind)), ..Default::default() };
            let desc = format!("{base} sink error {kind:?} at write call {j} of {total_calls}");
            let cell = format!("{cname}|write-error");
            match catch(|| write_with(comp, st, o, plan.clone(), &partition)) {
                Err(pn) => {
                    viols += 1;
                    if viols <= 2 {
                        out.push(CaseOut::viol(cell, format!("panic-on-sink-error {cname} @{}", pn.site()), pn.short_msg(), desc));
                    }
                }
                Ok((res, sink)) => {
                    if !sink.delivered_err {
                        continue;
                    }
                    match res {
                        Err(e) if e.kind() == kind => held += 1,
                        Err(e) => {
                            viols += 1;
                            if viols <= 2 {
                                out.push(CaseOut::viol(cell, format!("error-kind-lost {cname} (sink)"), format!("{kind:?} surfaced as {:?}: {e}", e.kind()), desc));
                            }
                        }
                        Ok(()) => {
                            viols += 1;
                            if viols <= 2 {
                                out.push(CaseOut::viol(cell, format!("sink-error-swallowed {cname}"), "the sink failed but write/flush/finish all returned Ok", desc));
                            }
                        }
                    }
                }
            }
        }
        stat_add("write_error_points", idxs.len() as u64);
        if held > 0 {
            out.push(CaseOut::held(format!("{cname}|write-error"), true, format!("{base}: sink error at each of {} write calls reached the caller with its kind", idxs.len())).times(held));
        }
        // flush error
        let plan = WritePlan { flush_err_at: Some((0, ErrorKind::TimedOut)), ..Default::default() };
        if let Ok((res, sink)) = catch(|| write_with(comp, st, o, plan, &partition)) {
            if sink.delivered_err && res.is_ok() {
                out.push(CaseOut::viol(format!("{cname}|flush-error"), format!("flush-error-swallowed {cname}"), "the sink's flush failed but no call reported it", base));
            }
        }
    } else {
        let (mut held, mut viols) = (0u64, 0u64);
        for t in 0..40 {
            let mut plan = WritePlan::default();
            plan.short = match t % 4 {
                0 => vec![1],
                1 => vec![1, 2, 3, 1000],
                2 => (0..5).map(|_| 1 + r.usize_below(50)).collect(),
                _ => vec![],
            };
            let with_int = t % 2 == 1;
            if with_int {
                let n = 1 + r.usize_below(5);
                plan.interrupted_at = (0..n).map(|_| r.usize_below(total_calls.max(1) * 2)).collect();
            }
            let desc = format!("{base} sink short={:?} interrupted_at={:?}", plan.short, plan.interrupted_at);
            let cell = format!("{cname}|short-writes{}", if with_int { "+interrupted" } else { "" });
            match catch(|| write_with(comp, st, o, plan.clone(), &partition)) {
                Err(pn) => {
                    viols += 1;
                    if viols <= 2 {
                        out.push(CaseOut::viol(cell, format!("panic-on-short-write {cname} @{}", pn.site()), pn.short_msg(), desc));
                    }
                }
                Ok((res, sink)) => {
                    let trig = if with_int && sink.delivered_interrupts > 0 { "interrupted-sink" } else { "short-writes" };
                    match res {
                        Err(e) => {
                            viols += 1;
                            if viols <= 3 {
                                out.push(CaseOut::viol(cell, format!("{trig}-fail {cname} {:?}:{}", e.kind(), e), "no persistent fault was injected", desc));
                            }
                        }
                        Ok(()) => {
                            if sink.out == reference {
                                held += 1;
                            } else {
                                viols += 1;
                                if viols <= 3 {
                                    out.push(CaseOut::viol(cell, format!("{trig}-change-output {cname}"), crate::util::first_diff(&sink.out, &reference), desc));
                                }
                            }
                        }
                    }
                }
            }
        }
        if held > 0 {
            out.push(CaseOut::held(format!("{cname}|short-writes"), true, format!("{base}: {held} short/interrupted sink plans gave identical compressed bytes")).times(held));
        }
    }
    out
}
