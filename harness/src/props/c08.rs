//! C08 - multi-threaded readers and writers are equivalent to the single-threaded ones.

use std::io::Cursor;

use lzma_rust2::verif::{self, Fp};
use lzma_rust2::{EncodeMode, LZMAOptions, MFType};

use crate::case::{set_insert, stat_add, stat_max, CaseOut, Ctx};
use crate::gen;
use crate::mt::{self, Guarded};
use crate::ours::{decode_bytes, decode_from, decode_lzip_mt, encode, Container, Spec};
use crate::util::{first_diff, Rng};

pub const STEER: u64 = 8;

pub fn n_cases(ctx: &Ctx) -> u64 {
    let base = match (ctx.variant.as_str(), ctx.thorough()) {
        ("miri", false) => 56,
        ("miri", true) => 1500,
        ("tsan", false) => 120,
        ("tsan", true) => 1500,
        (_, false) => 1500,
        (_, true) => 20000,
    };
    STEER + ctx.scaled(base)
}

fn fast_opts(dict: u32) -> LZMAOptions {
    LZMAOptions::new(dict, 3, 0, 2, EncodeMode::Fast, 32, MFType::HC4, 0)
}

#[derive(Debug, Clone)]
pub enum Kind {
    /// LZMA2ReaderMT over a stream made by `maker`
    Read2 { maker: u8 },
    ReadLzip { maker: u8 },
    Write2,
    WriteLzip,
}

pub struct Case {
    pub kind: Kind,
    pub workers: u32,
    pub unit: u64,
    pub len: usize,
    pub dict: u32,
    pub compressible: bool,
    pub sched_steer: u8,
    pub preset: bool,
}

pub fn make_case(ctx: &Ctx, idx: u64, r: &mut Rng) -> Case {
    let tiny = ctx.is("miri");
    if idx < STEER {
        // steering: force unit 0 to complete after unit 1 (out-of-order completion + reorder buffer)
        let kind = match idx % 4 {
            0 => Kind::Read2 { maker: 3 },
            1 => Kind::ReadLzip { maker: 0 },
            2 => Kind::Write2,
            _ => Kind::WriteLzip,
        };
        return Case {
            kind,
            workers: 4,
            unit: 4096,
            len: if tiny { 3 * 4096 } else { 6 * 4096 + 100 },
            dict: 4096,
            compressible: true,
            sched_steer: 1 + (idx / 4) as u8,
            preset: false,
        };
    }
    let kind = match r.below(10) {
        0..=3 => Kind::Read2 {
            maker: r.below(if tiny { 1 } else { 6 }) as u8 + if tiny { 3 } else { 0 },
        },
        4 | 5 => Kind::ReadLzip { maker: r.below(2) as u8 },
        6 | 7 => Kind::Write2,
        _ => Kind::WriteLzip,
    };
    let dict = *r.pick(&[4096u32, 4096, 8192, 65536]);
    let unit = match r.below(4) {
        0 => 1,
        1 => dict as u64,
        2 => r.log_range(1, 200_000),
        _ => dict as u64 + r.below(5000),
    };
    let len = if tiny {
        r.range(1, 3 * 4096 + 50) as usize
    } else {
        match r.below(5) {
            0 => r.range(0, 10) as usize,
            1 => (unit.max(dict as u64) as usize) * (1 + r.usize_below(6)),
            _ => r.log_range(1, if ctx.thorough() { 3_000_000 } else { 600_000 }) as usize,
        }
    };
    let workers = *r.pick(&[1u32, 1, 2, 2, 3, 4, 5, 8, 16, 32, 0, 1000]);
    Case {
        kind,
        workers: if tiny { workers.clamp(1, 4) } else { workers },
        unit,
        len,
        dict,
        compressible: tiny || r.chance(3, 4),
        sched_steer: 0,
        preset: r.chance(1, 8),
    }
}

fn steer_sched(which: u8) -> String {
    verif::reset_fps(7);
    match which {
        1 => {
            // the worker holding unit 0 is delayed right before it reports its result
            verif::set_fp(Fp::WorkerBeforeSend, 1 + 30_000, 65536, 0, 1);
            "steer: unit 0 delayed 30 ms before send".into()
        }
        _ => {
            verif::set_fp(Fp::WorkerAfterSteal, 1 + 30_000, 65536, 0, 1);
            verif::set_fp(Fp::CoordBeforeRecv, 1, 65536, 0, 0);
            "steer: unit 0 delayed 30 ms after steal, coordinator yields before recv".into()
        }
    }
}

pub fn run_case(ctx: &Ctx, idx: u64) -> Vec<CaseOut> {
    let mut r = ctx.rng(idx);
    let case = make_case(ctx, idx, &mut r);
    let tiny_ctx = ctx.is("miri");
    let o = fast_opts(case.dict);
    let mut data = mt::stamped_data(&mut r, case.len, case.unit.max(case.dict as u64) as usize, case.compressible);
    // streams whose unit starts with stored (uncompressed) chunks and goes on with LZMA chunks that
    // refer back into them: the first LZMA chunk then carries new properties and a state reset but NO
    // dictionary reset (control 0xC0) - a place where the stream must not be cut into units
    let mixed = !tiny_ctx
        && idx >= STEER
        && match &case.kind {
            Kind::Read2 { maker } => matches!(maker, 2 | 5) || (matches!(maker, 1 | 4) && case.unit >= 131_072),
            _ => false,
        }
        && r.chance(1, 2);
    if mixed {
        let hn = 66_000 + r.usize_below(140_000);
        let head = r.bytes(hn);
        let mut d = head.clone();
        let tn = 20_000 + r.usize_below(60_000);
        let text = gen::gen_data(&mut r, gen::Family::Text, tn);
        d.extend_from_slice(&text);
        for _ in 0..8 {
            let a = r.usize_below(head.len() - 600);
            let n = 50 + r.usize_below(500);
            d.extend_from_slice(&head[a..a + n]);
            let b = r.usize_below(text.len() - 300);
            d.extend_from_slice(&text[b..b + 200]);
        }
        if r.chance(1, 3) {
            // one LZMA chunk near the 2 MiB limit of its size field behind the stored ones
            let front = gen::gen_data(&mut r, gen::Family::Text, 30_000);
            let mut f = front;
            f.extend_from_slice(&d);
            let zn = (2 << 20) + r.usize_below(400_000);
            f.extend(std::iter::repeat(0u8).take(zn));
            d = f;
        }
        data = d;
    }
    let sizes: Vec<usize> = if r.chance(1, 2) {
        vec![*r.pick(&[1usize, 7, 100, 1000])]
    } else {
        gen::gen_read_sizes(&mut r).into_iter().filter(|&s| s > 0).collect()
    };
    let cap = data.len() + (1 << 20);
    let partition = if r.chance(1, 2) {
        vec![data.len()]
    } else {
        gen::gen_partition(&mut r, data.len())
    };
    let kname = match &case.kind {
        Kind::Read2 { maker } => format!("LZMA2ReaderMT/src{maker}"),
        Kind::ReadLzip { maker } => format!("LZIPReaderMT/src{maker}"),
        Kind::Write2 => "LZMA2WriterMT".to_string(),
        Kind::WriteLzip => "LZIPWriterMT".to_string(),
    };
    let wclass = match case.workers {
        0 => "w0",
        1 => "w1",
        2..=4 => "w2-4",
        5..=32 => "w5-32",
        _ => "w>256",
    };
    let cell = format!(
        "{kname}|{wclass}|unit{}|{}|{}",
        if case.unit <= case.dict as u64 { "<=dict" } else { ">dict" },
        gen::len_class(data.len()),
        if mixed {
            "stored-then-lzma"
        } else if case.compressible {
            "compressible"
        } else {
            "random"
        }
    );

    // ---- build the stream for reader cases (before scheduling noise is switched on)
    mt::no_sched();
    let mut preset: Option<Vec<u8>> = None;
    let stream: Option<(Vec<u8>, Spec)> = match &case.kind {
        Kind::Read2 { maker } => {
            let mut oo = o.clone();
            let (c, bytes): (Container, Option<Vec<u8>>) = match maker {
                0 => (Container::Lzma2Mt { chunk: case.unit, workers: 3 }, None),
                1 => (Container::Lzma2 { chunk: Some(case.unit) }, None),
                2 => {
                    if case.preset {
                        let pd = gen::gen_data(&mut r, gen::Family::Text, 3000);
                        oo.preset_dict = Some(pd.clone());
                        preset = Some(pd);
                    }
                    (Container::Lzma2 { chunk: None }, None)
                }
                3 => {
                    let units = (data.len() / 4096).clamp(1, 40);
                    let (s, d) = mt::handmade_lzma2(&mut r, units, 1 + (idx % 3) as usize, 37 + (idx % 200) as usize, true);
                    return run_reader2(ctx, &case, &cell, &kname, s, d, &sizes, None, idx);
                }
                4 => (Container::Lzma2 { chunk: Some(case.dict as u64) }, None),
                _ => {
                    #[cfg(feature = "ref")]
                    {
                        let ro = crate::refimpl::RefLzma {
                            dict: Some(case.dict.max(4096)),
                            ..crate::refimpl::RefLzma::preset(1)
                        };
                        match crate::refimpl::encode_raw_lzma2(&data, &ro) {
                            Ok(b) => (Container::Lzma2 { chunk: None }, Some(b)),
                            Err(_) => (Container::Lzma2 { chunk: None }, None),
                        }
                    }
                    #[cfg(not(feature = "ref"))]
                    {
                        (Container::Lzma2 { chunk: None }, None)
                    }
                }
            };
            let spec = Spec { c, o: oo };
            let bytes = match bytes {
                Some(b) => b,
                None => {
                    // writers with several write calls only start independent chunks between calls
                    let part: Vec<usize> = vec![case.unit.clamp(1, 1 << 20) as usize; data.len() / case.unit.clamp(1, 1 << 20) as usize + 1];
                    let part = if part.len() > 5000 { vec![data.len()] } else { part };
                    match encode(&spec, &data, &part, 0) {
                        Ok(b) => b,
                        Err(e) => return vec![CaseOut::skip(cell, format!("stream maker failed: {e}"), kname)],
                    }
                }
            };
            Some((bytes, spec))
        }
        Kind::ReadLzip { maker } => {
            let c = if *maker == 0 {
                Container::Lzip { member: Some(case.unit) }
            } else {
                Container::LzipMt { member: case.unit, workers: 3 }
            };
            let spec = Spec { c, o: o.clone() };
            let part: Vec<usize> = vec![case.unit.clamp(1, 1 << 20) as usize; data.len() / case.unit.clamp(1, 1 << 20) as usize + 1];
            let part = if part.len() > 5000 { vec![data.len()] } else { part };
            match encode(&spec, &data, &part, 0) {
                Ok(mut b) => {
                    // sometimes interleave empty members
                    if r.chance(1, 4) {
                        let e = encode(&Spec { c: Container::Lzip { member: None }, o: o.clone() }, &[], &[0], 0).unwrap_or_default();
                        let mut nb = e.clone();
                        nb.extend_from_slice(&b);
                        nb.extend_from_slice(&e);
                        b = nb;
                    }
                    Some((b, spec))
                }
                Err(e) => return vec![CaseOut::skip(cell, format!("stream maker failed: {e}"), kname)],
            }
        }
        _ => None,
    };

    // bytes behind the end of the stream: the single-threaded readers leave them alone (LZMA2: the
    // end marker ends the stream; LZIP: trailing data that is no member), so must the MT readers
    let trailing = !tiny_ctx && idx >= STEER && r.chance(1, 6);
    match &case.kind {
        Kind::Read2 { .. } => {
            let (mut bytes, _spec) = stream.unwrap();
            let mut kname = kname.clone();
            if trailing {
                let n = 1 + r.usize_below(300);
                bytes.extend(r.bytes(n));
                kname.push_str("[trailing-data]");
            }
            run_reader2(ctx, &case, &cell, &kname, bytes, data, &sizes, preset, idx)
        }
        Kind::ReadLzip { .. } => {
            let (mut bytes, _spec) = stream.unwrap();
            let mut kname = kname.clone();
            if trailing {
                // zeros: cannot be taken for a member
                let n = 20 + r.usize_below(40);
                bytes.extend(std::iter::repeat(0u8).take(n));
                kname.push_str("[trailing-data]");
            }
            // sequential model first
            let st = decode_bytes(&Spec { c: Container::Lzip { member: None }, o: o.clone() }, &bytes, 0, &[65536], cap);
            if !st.is_ok() || st.out != data {
                return vec![CaseOut::skip(cell, format!("ST reader does not accept the stream ({}); judged by C02", st.err_string()), kname)];
            }
            let sched = if case.sched_steer > 0 { steer_sched(case.sched_steer) } else { mt::random_sched(&mut r) };
            let quiet = mt::wait_quiet();
            let _ = quiet;
            mt::observe_begin();
            let workers = case.workers;
            let sz = sizes.clone();
            let b2 = bytes.clone();
            let g = mt::guarded(4000, 120_000, move || decode_lzip_mt(Cursor::new(b2), workers, &sz, cap).drain);
            let obs = mt::observe_end();
            mt::no_sched();
            let desc = format!("{kname} workers={} unit={} len={} stream={}B readbuf={:?} sched=[{sched}] completion={:?}", case.workers, case.unit, data.len(), bytes.len(), &sizes[..sizes.len().min(3)], &obs.completion_order[..obs.completion_order.len().min(12)]);
            record_obs(&obs);
            match g {
                Guarded::Done(d) => judge_read(&cell, &kname, d, &data, desc),
                Guarded::Panicked(p) => vec![CaseOut::viol(cell, format!("panic {kname} @{}", p.site()), p.short_msg(), desc)],
                Guarded::Stuck(w) => vec![CaseOut::viol(cell, format!("never-returns {kname} valid-stream"), w, desc)],
                Guarded::Timeout => vec![CaseOut::skip(cell, "watchdog without stuck predicate (inconclusive)", desc)],
            }
        }
        Kind::Write2 | Kind::WriteLzip => {
            let c = if matches!(case.kind, Kind::Write2) {
                Container::Lzma2Mt { chunk: case.unit.max(1), workers: case.workers }
            } else {
                Container::LzipMt { member: case.unit.max(1), workers: case.workers }
            };
            let mut o = o.clone();
            let mut data = data;
            if case.preset && matches!(case.kind, Kind::Write2) && !tiny_ctx {
                // a preset dictionary in the options and data that repeats its material in every unit
                let pd = gen::gen_data(&mut r, gen::Family::Text, 3000);
                let step = case.unit.max(case.dict as u64) as usize;
                let mut i = 0;
                while i + pd.len() + 8 <= data.len() {
                    data[i + 8..i + 8 + pd.len()].copy_from_slice(&pd);
                    i += step;
                }
                o.preset_dict = Some(pd);
            }
            let spec = Spec { c, o: o.clone() };
            let sched = if case.sched_steer > 0 { steer_sched(case.sched_steer) } else { mt::random_sched(&mut r) };
            let quiet = mt::wait_quiet();
            mt::observe_begin();
            let sp = spec.clone();
            let d2 = data.clone();
            let part = partition.clone();
            let flush_every = if r.chance(1, 5) { 1 + r.usize_below(4) } else { 0 };
            let g = mt::guarded(6000, 300_000, move || encode(&sp, &d2, &part, flush_every));
            let obs = mt::observe_end();
            mt::no_sched();
            let desc = format!("{kname} workers={} unit={} dict={} len={} writes={} flush_every={flush_every} sched=[{sched}] completion={:?}", case.workers, case.unit, case.dict, data.len(), partition.len(), &obs.completion_order[..obs.completion_order.len().min(12)]);
            record_obs(&obs);
            let limit = case.workers.clamp(1, 256) as u64;
            if quiet && obs.peak_workers > limit {
                return vec![CaseOut::viol(cell, format!("worker-limit {kname}"), format!("peak {} > limit {limit}", obs.peak_workers), desc)];
            }
            match g {
                Guarded::Done(Ok(bytes)) => {
                    let st = decode_bytes(&spec, &bytes, data.len() as u64, &[65536], cap);
                    if !st.is_ok() {
                        return vec![CaseOut::viol(cell, format!("st-reader-rejects {kname} {}", st.err_string()), format!("after {} bytes", st.out.len()), desc)];
                    }
                    if st.out != data {
                        return vec![CaseOut::viol(cell, format!("mismatch {kname}"), first_diff(&st.out, &data), desc)];
                    }
                    // and back through the MT reader
                    let sz = sizes.clone();
                    let b2 = bytes.clone();
                    let is2 = matches!(case.kind, Kind::Write2);
                    let dict = case.dict;
                    let g2 = mt::guarded(4000, 120_000, move || {
                        if is2 {
                            decode_from(&Spec { c: Container::Lzma2Mt { chunk: 1, workers: 3 }, o: fast_opts(dict) }, b2.as_slice(), 0, &sz, cap).drain
                        } else {
                            decode_lzip_mt(Cursor::new(b2), 3, &sz, cap).drain
                        }
                    });
                    match g2 {
                        Guarded::Done(d) => judge_read(&cell, &format!("{kname}->MTreader"), d, &data, desc),
                        Guarded::Panicked(p) => vec![CaseOut::viol(cell, format!("panic {kname}->MTreader @{}", p.site()), p.short_msg(), desc)],
                        Guarded::Stuck(w) => vec![CaseOut::viol(cell, format!("never-returns {kname}->MTreader valid-stream"), w, desc)],
                        Guarded::Timeout => vec![CaseOut::skip(cell, "watchdog without stuck predicate (inconclusive)", desc)],
                    }
                }
                Guarded::Done(Err(e)) => vec![CaseOut::viol(cell, format!("enc-err {kname} {:?}:{}", e.kind(), e), "", desc)],
                Guarded::Panicked(p) => vec![CaseOut::viol(cell, format!("panic {kname} @{}", p.site()), p.short_msg(), desc)],
                Guarded::Stuck(w) => vec![CaseOut::viol(cell, format!("never-returns {kname}"), w, desc)],
                Guarded::Timeout => vec![CaseOut::skip(cell, "watchdog without stuck predicate (inconclusive)", desc)],
            }
        }
    }
}

fn record_obs(obs: &mt::MtObs) {
    stat_add("mt_runs", 1);
    stat_add("mt_events", obs.n_events as u64);
    if obs.out_of_order_completions > 0 {
        stat_add("out_of_order_runs", 1);
    }
    if obs.buffered > 0 {
        stat_add("reorder_buffer_runs", 1);
    }
    stat_max("peak_workers_seen", obs.peak_workers);
    set_insert("schedule_hashes", obs.sched_hash);
    if obs.completion_order.len() > 1 {
        let mut b = Vec::new();
        for s in &obs.completion_order {
            b.extend_from_slice(&s.to_le_bytes());
        }
        set_insert("completion_orders", crate::util::hash64(&b));
    }
    for (i, (hits, acted)) in obs.fp_hits.iter().enumerate() {
        if *hits > 0 {
            stat_add(&format!("fp_hit_{}", verif::FP_NAMES[i]), *hits);
        }
        if *acted > 0 {
            stat_add(&format!("fp_acted_{}", verif::FP_NAMES[i]), *acted);
        }
    }
}

fn judge_read(cell: &str, kname: &str, d: crate::fio::Drain, data: &[u8], desc: String) -> Vec<CaseOut> {
    if !d.is_ok() {
        return vec![CaseOut::viol(cell, format!("mt-reader-rejects {kname} {}", d.err_string()), format!("valid stream (ST reader accepts it); MT reader failed after {} bytes", d.out.len()), desc)];
    }
    if d.out != data {
        return vec![CaseOut::viol(cell, format!("mismatch {kname}"), first_diff(&d.out, data), desc)];
    }
    vec![CaseOut::held(cell, !data.is_empty(), desc)]
}

fn run_reader2(
    ctx: &Ctx,
    case: &Case,
    cell: &str,
    kname: &str,
    bytes: Vec<u8>,
    data: Vec<u8>,
    sizes: &[usize],
    preset: Option<Vec<u8>>,
    idx: u64,
) -> Vec<CaseOut> {
    let _ = ctx;
    let cap = data.len() + (1 << 20);
    let mut o = fast_opts(case.dict);
    o.preset_dict = preset;
    // sequential model
    let st = decode_bytes(&Spec { c: Container::Lzma2 { chunk: None }, o: o.clone() }, &bytes, 0, &[65536], cap);
    if !st.is_ok() || st.out != data {
        return vec![CaseOut::skip(cell, format!("ST reader does not accept the stream ({}); judged by C01", st.err_string()), kname)];
    }
    let mut r = Rng::new(idx ^ 0x5151);
    let sched = if case.sched_steer > 0 { steer_sched(case.sched_steer) } else { mt::random_sched(&mut r) };
    let quiet = mt::wait_quiet();
    mt::observe_begin();
    let workers = case.workers;
    let sz = sizes.to_vec();
    let b2 = bytes.clone();
    let spec = Spec { c: Container::Lzma2Mt { chunk: 1, workers }, o };
    let g = mt::guarded(4000, 120_000, move || {
        let d = decode_from(&spec, b2.as_slice(), 0, &sz, cap);
        (d.drain, d.units)
    });
    let obs = mt::observe_end();
    mt::no_sched();
    let desc = format!(
        "{kname} workers={} dict={} len={} stream={}B readbuf={:?} sched=[{sched}] completion={:?}",
        case.workers,
        case.dict,
        data.len(),
        bytes.len(),
        &sizes[..sizes.len().min(3)],
        &obs.completion_order[..obs.completion_order.len().min(12)]
    );
    record_obs(&obs);
    let limit = case.workers.clamp(1, 256) as u64;
    if quiet && obs.peak_workers > limit {
        return vec![CaseOut::viol(cell, format!("worker-limit {kname}"), format!("peak {} > limit {limit}", obs.peak_workers), desc)];
    }
    match g {
        Guarded::Done((d, _units)) => judge_read(cell, kname, d, &data, desc),
        Guarded::Panicked(p) => vec![CaseOut::viol(cell, format!("panic {kname} @{}", p.site()), p.short_msg(), desc)],
        Guarded::Stuck(w) => vec![CaseOut::viol(cell, format!("never-returns {kname} valid-stream"), w, desc)],
        Guarded::Timeout => vec![CaseOut::skip(cell, "watchdog without stuck predicate (inconclusive)", desc)],
    }
}
