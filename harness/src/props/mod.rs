//! Per-property case generators and oracles.

use crate::case::{CaseOut, Ctx};

pub mod c01;
pub mod c02;
#[cfg(feature = "ref")]
pub mod c03;
pub mod c04;
pub mod c05;
pub mod c06;
pub mod c07;
pub mod c08;
pub mod c09;
pub mod c10;
pub mod c11;
pub mod c12;
pub mod c13;
pub mod c15;
pub mod c16;
pub mod c17;
pub mod c18;
pub mod c19;

pub fn n_cases(ctx: &Ctx) -> u64 {
    match ctx.prop.as_str() {
        "C01" => c01::n_cases(ctx),
        "C02" => c02::n_cases(ctx),
        #[cfg(feature = "ref")]
        "C03" => c03::n_cases(ctx),
        "C04" => c04::n_cases(ctx),
        "C05" => c05::n_cases(ctx),
        "C06" => c06::n_cases(ctx),
        "C07" => c07::n_cases(ctx),
        "C08" => c08::n_cases(ctx),
        "C09" => c09::n_cases(ctx),
        "C10" => c10::n_cases(ctx),
        "C11" => c11::n_cases(ctx),
        "C12" => c12::n_cases(ctx),
        "C13" => c13::n_cases(ctx),
        "C15" => c15::n_cases(ctx),
        "C16" => c16::n_cases(ctx),
        "C17" => c17::n_cases(ctx),
        "C18" => c18::n_cases(ctx),
        "C19" => c19::n_cases(ctx),
        _ => 0,
    }
}

pub fn run_case(ctx: &Ctx, idx: u64) -> Vec<CaseOut> {
    match ctx.prop.as_str() {
        "C01" => c01::run_case(ctx, idx),
        "C02" => c02::run_case(ctx, idx),
        #[cfg(feature = "ref")]
        "C03" => c03::run_case(ctx, idx),
        "C04" => c04::run_case(ctx, idx),
        "C05" => c05::run_case(ctx, idx),
        "C06" => c06::run_case(ctx, idx),
        "C07" => c07::run_case(ctx, idx),
        "C08" => c08::run_case(ctx, idx),
        "C09" => c09::run_case(ctx, idx),
        "C10" => c10::run_case(ctx, idx),
        "C11" => c11::run_case(ctx, idx),
        "C12" => c12::run_case(ctx, idx),
        "C13" => c13::run_case(ctx, idx),
        "C15" => c15::run_case(ctx, idx),
        "C16" => c16::run_case(ctx, idx),
        "C17" => c17::run_case(ctx, idx),
        "C18" => c18::run_case(ctx, idx),
        "C19" => c19::run_case(ctx, idx),
        _ => Vec::new(),
    }
}

/// Extra JSON fields for the shard summary.
pub fn summary_extra(_ctx: &Ctx) -> Vec<(String, String)> {
    let mut v = vec![("counters".into(), crate::case::counters_json())];
    v.extend(crate::case::stats_extra());
    if _ctx.prop == "C15" {
        v.extend(c15::unsafe_site_counts());
    }
    v
}

/// JSON description of a case without running it (used to label crashes): component, trigger,
/// cell, desc.
pub fn describe(ctx: &Ctx, idx: u64) -> String {
    let (component, trigger, cell, desc) = match ctx.prop.as_str() {
        "C01" => {
            let c = c01::make_case(ctx, idx);
            (
                c.spec.c.name().to_string(),
                c.fam.name().to_string(),
                "crash".to_string(),
                format!("{} fam={} len={} bias={:#x}", c.spec.desc(), c.fam.name(), c.len, c.bias),
            )
        }
        "C06" => c06::describe(ctx, idx),
        "C19" => c19::describe(ctx, idx),
        _ => (String::new(), String::new(), "crash".to_string(), format!("case {idx}")),
    };
    crate::util::Obj::new()
        .s("component", &component)
        .s("trigger", &trigger)
        .s("cell", &cell)
        .s("desc", &desc)
        .build()
}
