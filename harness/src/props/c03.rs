//! C03 - streams interoperate with the reference implementation (liblzma) in both directions.
#![cfg(feature = "ref")]

use lzma_rust2::{EncodeMode, LZMAOptions, LZMA2Reader, LZMAReader, MFType, XZReader};

use crate::case::{catch, CaseOut, Ctx};
use crate::fio::drain;
use crate::gen::{self, Family};
use crate::ours::{encode, Container, Spec};
use crate::props::c02;
use crate::refimpl::{self, PreFilter, RefLzma};
use crate::util::{first_diff, Rng};
use crate::walk;

pub const STEER: u64 = 20;

pub fn n_cases(ctx: &Ctx) -> u64 {
    let base = match (ctx.variant.as_str(), ctx.thorough()) {
        ("dbg", false) => 300,
        ("dbg", true) => 3000,
        (_, false) => 10000,
        (_, true) => 50000,
    };
    STEER + ctx.scaled(base)
}

fn gen_ref_opts(r: &mut Rng, lzma2: bool) -> RefLzma {
    let preset = if r.chance(1, 4) {
        r.below(10) as u32 | 0x8000_0000
    } else {
        r.below(10) as u32
    };
    let mut o = RefLzma::preset(preset);
    // keep the reference encoder cheap: small dictionaries for the slow presets
    if preset & 0xF >= 7 || r.chance(1, 2) {
        o.dict = Some(*r.pick(&[4096u32, 8192, 65536, 1 << 18, 1 << 20, 3 << 19, 1 << 22, 5000, 100_000]));
    }
    if r.chance(1, 2) {
        loop {
            let lc = r.below(5) as u32;
            let lp = r.below(5) as u32;
            if lc + lp <= 4 {
                o.lc = Some(lc);
                o.lp = Some(lp);
                break;
            }
        }
        o.pb = Some(r.below(5) as u32);
    }
    if r.chance(1, 3) {
        let mf = r.below(5) as u8;
        o.mf = Some(mf);
        // liblzma: nice_len minimum depends on the match finder (2..4)
        o.nice = Some(*r.pick(&[4u32, 5, 8, 32, 64, 128, 273]));
        o.mode = Some(r.chance(1, 2));
        o.depth = Some(*r.pick(&[0u32, 1, 4, 100]));
    }
    let _ = lzma2;
    o
}

fn ref_filters(f: &[(u8, u32)]) -> Vec<PreFilter> {
    f.iter().map(|(id, p)| PreFilter { id: *id, prop: *p }).collect()
}

fn steer_spec(i: u64) -> (Spec, Family, usize) {
    use EncodeMode::*;
    use MFType::*;
    let o = |dict: u32| LZMAOptions::new(dict, 3, 0, 2, Fast, 32, HC4, 0);
    let on = |dict: u32| LZMAOptions::new(dict, 3, 0, 2, Normal, 64, BT4, 0);
    match i {
        0 => (Spec { c: Container::LzmaHeaderMarker, o: o(1 << 20) }, Family::Text, 200_000),
        1 => (Spec { c: Container::LzmaHeaderSized, o: on(65536) }, Family::Exe, 200_000),
        2 => (Spec { c: Container::Lzma2 { chunk: None }, o: o(1 << 20) }, Family::Sandwich, 800_000),
        3 => (Spec { c: Container::Lzma2 { chunk: Some(65536) }, o: on(65536) }, Family::Sandwich, 500_000),
        4 => (Spec { c: Container::Xz { check: 4, block: None, filters: vec![] }, o: o(1 << 20) }, Family::Text, 100_000),
        5 => (Spec { c: Container::Xz { check: 10, block: Some(65536), filters: vec![(4, 0)] }, o: o(65536) }, Family::Exe, 300_000),
        6 => (Spec { c: Container::Xz { check: 1, block: None, filters: vec![] }, o: o(4096) }, Family::Empty, 0),
        7 => (Spec { c: Container::Lzip { member: None }, o: o(1 << 20) }, Family::Text, 200_000),
        8 => (Spec { c: Container::Lzip { member: Some(65536) }, o: on(65536) }, Family::Exe, 300_000),
        9 => (Spec { c: Container::Lzip { member: None }, o: o(4096) }, Family::Empty, 0),
        10 => (Spec { c: Container::Lzma2Mt { chunk: 65536, workers: 4 }, o: o(65536) }, Family::Text, 400_000),
        _ => (Spec { c: Container::LzipMt { member: 65536, workers: 4 }, o: o(65536) }, Family::Text, 400_000),
    }
}

fn ours_to_ref(ctx: &Ctx, idx: u64, r: &mut Rng) -> Vec<CaseOut> {
    let (spec, fam, len) = if idx < STEER {
        steer_spec(idx)
    } else {
        let kind = r.below(10);
        let lzma2ish = kind >= 2;
        let mut o = gen::gen_lzma_opts(r, lzma2ish, false);
        let c = match kind {
            0 => Container::LzmaHeaderSized,
            1 => Container::LzmaHeaderMarker,
            2 => Container::Lzma2 { chunk: None },
            3 => Container::Lzma2 {
                chunk: Some(r.log_range(1, 1 << 20)),
            },
            4 | 5 | 6 => Container::Xz {
                check: *r.pick(&[0u8, 1, 4, 10]),
                block: if r.chance(1, 2) { None } else { Some(r.log_range(1, 1 << 20)) },
                filters: c02::gen_filters(r),
            },
            7 => Container::Lzip {
                member: if r.chance(1, 2) { None } else { Some(r.log_range(1, 1 << 20)) },
            },
            8 => Container::Lzma2Mt {
                chunk: r.log_range(1, 1 << 19),
                workers: r.range(1, 8) as u32,
            },
            _ => Container::LzipMt {
                member: r.log_range(1, 1 << 19),
                workers: r.range(1, 8) as u32,
            },
        };
        if matches!(c, Container::Lzip { .. } | Container::LzipMt { .. }) && r.chance(1, 2) {
            o.dict_size = *r.pick(&c02::LZIP_DICTS);
        }
        let fam = if r.chance(1, 12) {
            *r.pick(&[Family::Empty, Family::OneByte])
        } else {
            *r.pick(&gen::BULK_FAMILIES)
        };
        let len = gen::gen_len(r, if ctx.thorough() { 4 << 20 } else { 1 << 20 }, o.dict_size);
        (Spec { c, o }, fam, len)
    };
    let mut dr = Rng::new(r.next_u64() ^ idx);
    let data = gen::gen_data(&mut dr, fam, len);
    let cname = spec.c.name();
    // trigger tag of the known BCJWriter limitation (here: a BCJ filter behind another BCJ filter)
    let cname = match &spec.c {
        Container::Xz { filters, .. } if c02::bcj_multi_write_exposed(filters, 1) => "xz[bcj-filter+multi-write]",
        _ => cname,
    };
    let o = &spec.o;
    let in_domain = !(spec.c.is_lzma1() && o.lc + o.lp > 4);
    let (chain, chk) = match &spec.c {
        Container::Xz { check, filters, .. } => (c02::chain_shape(filters), format!("check{check}")),
        _ => ("nofilter".to_string(), "-".to_string()),
    };
    let cell = format!(
        "ours->ref|{cname}|{}|{}|{chain}|{chk}|{}|{}",
        gen::mode_name(o.mode),
        gen::mf_name(o.mf),
        fam.name(),
        gen::len_class(data.len())
    );
    let desc = format!(
        "ours->liblzma {} fam={} len={}",
        match &spec.c {
            Container::Xz { check, block, filters } => format!(
                "Xz check={check} block={block:?} filters={} {}",
                c02::filters_desc(filters),
                gen::opts_desc(o)
            ),
            _ => spec.desc(),
        },
        fam.name(),
        data.len()
    );
    if !in_domain {
        return vec![CaseOut::skip(
            cell,
            "outside_reference_domain (liblzma supports lc+lp<=4 only)",
            desc,
        )];
    }
    // single write: partitions are C07's business
    let enc = catch(|| encode(&spec, &data, &[data.len()], 0));
    let bytes = match enc {
        Err(p) => return vec![CaseOut::viol(cell, format!("enc-panic {cname} @{}", p.site()), p.short_msg(), desc)],
        Ok(Err(e)) => return vec![CaseOut::viol(cell, format!("enc-err {cname} {:?}:{}", e.kind(), e), "", desc)],
        Ok(Ok(b)) => b,
    };
    let cap = data.len() + (1 << 20);
    let res = match &spec.c {
        Container::LzmaHeaderSized | Container::LzmaHeaderMarker => refimpl::decode_alone(&bytes, cap),
        Container::Lzma2 { .. } | Container::Lzma2Mt { .. } => refimpl::decode_raw_lzma2(&bytes, o.dict_size, cap),
        Container::Xz { .. } => {
            // our own structural reading first: gives a precise signature
            match walk::walk_xz_stream(&bytes, 0) {
                Ok(s) => {
                    if let Err(e) = walk::check_xz_consistent(&s) {
                        let class: String = e.chars().filter(|c| !c.is_ascii_digit()).collect();
                        // still ask the reference; report the walker's diagnosis
                        let lib = refimpl::decode_xz(&bytes, false, cap);
                        if lib.is_err() {
                            return vec![CaseOut::viol(
                                cell,
                                format!("ref-rejects xz: {}", class.trim()),
                                format!("{e}; liblzma: {:?}", lib.err()),
                                desc,
                            )];
                        }
                    }
                }
                Err(e) => {
                    return vec![CaseOut::viol(cell, format!("walker-rejects xz: {e}"), "", desc)];
                }
            }
            refimpl::decode_xz(&bytes, false, cap)
        }
        Container::Lzip { .. } | Container::LzipMt { .. } => refimpl::decode_lzip(&bytes, true, cap),
        _ => return vec![CaseOut::skip(cell, "container not interoperable", desc)],
    };
    match res {
        Err(e) => vec![CaseOut::viol(cell, format!("ref-rejects {cname} {e:?}"), "liblzma returned an error", desc)],
        Ok(ro) => {
            if !ro.ended {
                return vec![CaseOut::viol(
                    cell,
                    format!("ref-incomplete {cname}"),
                    format!("liblzma did not reach StreamEnd (in {} of {}, out {})", ro.total_in, bytes.len(), ro.out.len()),
                    desc,
                )];
            }
            if ro.out != data {
                return vec![CaseOut::viol(cell, format!("ref-mismatch {cname}"), first_diff(&ro.out, &data), desc)];
            }
            if ro.total_in as usize != bytes.len() {
                return vec![CaseOut::viol(
                    cell,
                    format!("ref-trailing {cname}"),
                    format!("liblzma consumed {} of {} bytes", ro.total_in, bytes.len()),
                    desc,
                )];
            }
            vec![CaseOut::held(cell, !data.is_empty(), desc)]
        }
    }
}

fn ref_to_ours(ctx: &Ctx, r: &mut Rng) -> Vec<CaseOut> {
    let kind = r.below(8);
    let fam = if r.chance(1, 12) {
        *r.pick(&[Family::Empty, Family::OneByte])
    } else {
        *r.pick(&gen::BULK_FAMILIES)
    };
    let len = gen::gen_len(r, if ctx.thorough() { 2 << 20 } else { 400_000 }, 65536);
    let data = gen::gen_data(r, fam, len);
    let ro = gen_ref_opts(r, kind != 0);
    let sizes: Vec<usize> = gen::gen_read_sizes(r).into_iter().filter(|&s| s > 0).collect();
    let cap = data.len() + (1 << 20);
    let (cname, bytes, extra): (&str, Result<Vec<u8>, _>, String) = match kind {
        0 | 1 => ("alone", refimpl::encode_alone(&data, &ro), String::new()),
        2 => ("raw-lzma2", refimpl::encode_raw_lzma2(&data, &ro), String::new()),
        3 | 4 | 5 => {
            let filters = c02::gen_filters(r);
            let check = *r.pick(&[0u8, 1, 4, 10]);
            let nflush = r.below(4) as usize;
            let points: Vec<usize> = (0..nflush).map(|_| r.usize_below(data.len() + 1)).collect();
            (
                "xz",
                refimpl::encode_xz(&data, &ref_filters(&filters), &ro, check, &points),
                format!("filters={} check={check} flush_points={points:?}", c02::filters_desc(&filters)),
            )
        }
        _ => {
            let check = *r.pick(&[0u8, 1, 4, 10]);
            let bs = r.log_range(4096, 1 << 20);
            let threads = r.range(1, 4) as u32;
            (
                "xz-mt",
                refimpl::encode_xz_mt(&data, r.below(7) as u32, check, bs, threads),
                format!("check={check} block_size={bs} threads={threads}"),
            )
        }
    };
    let cell = format!("ref->ours|{cname}|p{}|{}|{}", ro.preset & 0xF, fam.name(), gen::len_class(data.len()));
    let desc = format!("liblzma->ours {cname} {} {extra} fam={} len={}", ro.desc(), fam.name(), data.len());
    let bytes = match bytes {
        Ok(b) => b,
        Err(e) => return vec![CaseOut::skip(cell, format!("reference encoder refused the options: {e:?}"), desc)],
    };
    let dict = ro.dict.unwrap_or(match ro.preset & 0xF {
        0 => 1 << 18,
        1 => 1 << 20,
        2 => 1 << 21,
        3 | 4 => 1 << 22,
        5 | 6 => 1 << 23,
        7 => 1 << 24,
        8 => 1 << 25,
        _ => 1 << 26,
    });
    let dec = catch(|| match kind {
        0 | 1 => match LZMAReader::new_mem_limit(bytes.as_slice(), u32::MAX, None) {
            Ok(mut rd) => drain(&mut rd, &sizes, cap, 8),
            Err(e) => crate::fio::Drain {
                out: Vec::new(),
                end: Err(e),
                calls: 0,
                bound_hit: None,
            },
        },
        2 => {
            let mut rd = LZMA2Reader::new(bytes.as_slice(), dict, None);
            drain(&mut rd, &sizes, cap, 8)
        }
        _ => {
            let mut rd = XZReader::new(bytes.as_slice(), false);
            drain(&mut rd, &sizes, cap, 8)
        }
    });
    match dec {
        Err(p) => vec![CaseOut::viol(cell, format!("dec-panic {cname} @{}", p.site()), p.short_msg(), desc)],
        Ok(d) => {
            if !d.is_ok() {
                return vec![CaseOut::viol(
                    cell,
                    format!("ours-rejects {cname} {}", d.err_string()),
                    format!("after {} of {} bytes", d.out.len(), data.len()),
                    desc,
                )];
            }
            if d.out != data {
                return vec![CaseOut::viol(cell, format!("ours-mismatch {cname}"), first_diff(&d.out, &data), desc)];
            }
            vec![CaseOut::held(cell, !data.is_empty(), desc)]
        }
    }
}

fn corpus_case(i: usize) -> Vec<CaseOut> {
    let c = gen::corpus();
    if i >= c.xzs.len() {
        return vec![CaseOut::skip("ref->ours|corpus", "corpus file missing", format!("wget xz #{i}"))];
    }
    let (name, xz) = &c.xzs[i];
    let Some((_, exe)) = c.exes.iter().find(|(n, _)| n == name) else {
        return vec![CaseOut::skip("ref->ours|corpus", "corpus file missing", format!("wget-{name}"))];
    };
    let cell = format!("ref->ours|corpus-xz|{name}");
    let desc = format!("tests/data/wget-{name}.xz ({} bytes, made by xz with a BCJ filter)", xz.len());
    let dec = catch(|| {
        let mut rd = XZReader::new(xz.as_slice(), false);
        drain(&mut rd, &[65536], exe.len() + (1 << 20), 8)
    });
    match dec {
        Err(p) => vec![CaseOut::viol(cell, format!("dec-panic corpus-xz @{}", p.site()), p.short_msg(), desc)],
        Ok(d) => {
            if !d.is_ok() {
                return vec![CaseOut::viol(cell, format!("ours-rejects corpus-xz {}", d.err_string()), "", desc)];
            }
            if &d.out != exe {
                return vec![CaseOut::viol(cell, "ours-mismatch corpus-xz", first_diff(&d.out, exe), desc)];
            }
            vec![CaseOut::held(cell, true, desc)]
        }
    }
}

pub fn run_case(ctx: &Ctx, idx: u64) -> Vec<CaseOut> {
    let mut r = ctx.rng(idx);
    if (12..STEER).contains(&idx) {
        return corpus_case((idx - 12) as usize);
    }
    if idx < 12 || idx % 2 == 0 {
        ours_to_ref(ctx, idx, &mut r)
    } else {
        ref_to_ours(ctx, &mut r)
    }
}
