//! C09 - multi-threaded I/O always terminates and reports worker failures.

use std::io::{Cursor, ErrorKind, Write};
use std::num::NonZeroU64;

use lzma_rust2::verif::{self, Fp};
use lzma_rust2::{
    EncodeMode, LZIPOptions, LZIPReader, LZIPReaderMT, LZIPWriterMT, LZMA2Options, LZMA2Reader, LZMA2ReaderMT,
    LZMA2WriterMT, LZMAOptions, MFType,
};

use crate::case::{stat_add, CaseOut, Ctx};
use crate::fio::{drain, flush_bounded, write_all_bounded, Drain, FaultyRead, FaultyWrite, ReadPlan, WritePlan};
use crate::mt::{self, Guarded};
use crate::ours::{encode, Container, Spec};
use crate::util::Rng;
use crate::walk;

pub const STEER: u64 = 12;

pub fn n_cases(ctx: &Ctx) -> u64 {
    let base = match (ctx.variant.as_str(), ctx.thorough()) {
        ("miri", false) => 84,
        ("miri", true) => 2000,
        ("tsan", false) => 150,
        ("tsan", true) => 1500,
        (_, false) => 2500,
        (_, true) => 30000,
    };
    STEER + ctx.scaled(base)
}

fn fast_opts(dict: u32) -> LZMAOptions {
    LZMAOptions::new(dict, 3, 0, 2, EncodeMode::Fast, 32, MFType::HC4, 0)
}

pub const KINDS: [ErrorKind; 3] = [ErrorKind::ConnectionReset, ErrorKind::TimedOut, ErrorKind::PermissionDenied];

#[derive(Clone, Debug)]
pub enum Fault {
    None,
    CorruptUnit { unit: usize },
    CorruptControl { chunk: usize },
    Truncate { at: usize },
    ZeroBytes,
    MissingTerminator,
    SourceError { call: usize, kind: ErrorKind },
    SourceErrorAtByte { at: usize, kind: ErrorKind },
    Garbage,
    /// LZIP: the member_size field of a member other than the last is zeroed
    TrailerSizeZero { member: usize },
}

impl Fault {
    pub fn class(&self) -> &'static str {
        match self {
            Fault::None => "valid",
            Fault::CorruptUnit { .. } => "corrupt-unit",
            Fault::CorruptControl { .. } => "corrupt-control",
            Fault::Truncate { .. } => "truncated",
            Fault::ZeroBytes => "zero-bytes",
            Fault::MissingTerminator => "missing-terminator",
            Fault::SourceError { .. } => "source-error@call",
            Fault::SourceErrorAtByte { .. } => "source-error@byte",
            Fault::Garbage => "garbage",
            Fault::TrailerSizeZero { .. } => "trailer-size-zero",
        }
    }
}

fn drain_result(d: &Drain) -> Result<Vec<u8>, (ErrorKind, String)> {
    if let Some(b) = d.bound_hit {
        return Err((ErrorKind::Other, format!("bound:{b}")));
    }
    match &d.end {
        Ok(()) => Ok(d.out.clone()),
        Err(e) => Err((e.kind(), e.to_string())),
    }
}

/// Builds a small LZMA2 or LZIP stream with `units` independent units of LZMA-compressed data.
fn make_stream(r: &mut Rng, lzip: bool, units: usize, tiny: bool) -> (Vec<u8>, Vec<u8>) {
    let unit = 4096usize;
    let len = if units == 0 { 0 } else { (units - 1) * unit + 1 + r.usize_below(unit) };
    let data = mt::stamped_data(r, len, unit, true);
    if tiny && !lzip {
        // Miri: hand-made uncompressed units are cheap to decode
        return mt::handmade_lzma2(r, units.max(1), 2, 40, true);
    }
    let spec = Spec {
        c: if lzip {
            Container::Lzip { member: Some(unit as u64) }
        } else {
            Container::Lzma2 { chunk: Some(unit as u64) }
        },
        o: fast_opts(4096),
    };
    let part = vec![unit; len / unit + 1];
    let bytes = encode(&spec, &data, &part, 0).expect("stream maker");
    (bytes, data)
}

pub fn run_case(ctx: &Ctx, idx: u64) -> Vec<CaseOut> {
    let mut r = ctx.rng(idx);
    let tiny = ctx.is("miri");
    // every 9th random case: a worker failure racing with a coordinator that is busy dispatching
    if idx >= STEER && idx % 9 == 4 || idx == STEER {
        return fail_race_case(ctx, idx, &mut r, tiny);
    }
    let which = if idx < STEER { idx % 4 } else { r.below(4) };
    match which {
        0 => reader_case(ctx, idx, &mut r, false, tiny),
        1 => reader_case(ctx, idx, &mut r, true, tiny),
        2 => writer_case(ctx, idx, &mut r, false, tiny),
        _ => writer_case(ctx, idx, &mut r, true, tiny),
    }
}

/// A worker fails at once (the stream's first chunk is a stored chunk without the dictionary reset a
/// first chunk needs) while the coordinator stays busy for a long time cutting thousands of one-byte
/// units and polling the shared error state between them: the failure has to reach the caller however
/// the worker's report and the coordinator's polls interleave. Repeated several times per case.
fn fail_race_case(ctx: &Ctx, idx: u64, r: &mut Rng, tiny: bool) -> Vec<CaseOut> {
    let _ = (ctx, idx);
    let rname = "LZMA2ReaderMT";
    let tail = if tiny { 120 } else { 40_000 };
    let trials = if tiny { 2 } else { 10 };
    let mut out = Vec::new();
    let mut held = 0u64;
    for t in 0..trials {
        let mut bytes = vec![0x02, 0x00, 0x00, r.next_u32() as u8, 0x01, 0x00, 0x00, r.next_u32() as u8];
        for _ in 0..tail {
            bytes.extend_from_slice(&[if r.chance(1, 50) { 0x01 } else { 0x02 }, 0x00, 0x00, r.next_u32() as u8]);
        }
        bytes.push(0x00);
        let workers = *r.pick(&[1u32, 2, 2, 3, 4, 16]);
        let sched = if t % 2 == 0 { mt::no_sched(); String::from("none") } else { mt::random_sched(r) };
        let cell = format!("{rname}|worker-failure-during-dispatch|w{workers}");
        let desc = format!("{rname} workers={workers}: chunk 0 = stored chunk without dictionary reset (its worker fails at once), then {tail} one-byte stored chunks; trial {t} sched=[{sched}]");
        stat_add("fault_worker-failure-during-dispatch", 1);
        let b2 = bytes.clone();
        let g = mt::guarded(3000, 90_000, move || {
            let src = FaultyRead::new(unsafe_static(&b2), ReadPlan::default());
            let mut rd = LZMA2ReaderMT::new(src, 4096, None, workers);
            let d = drain(&mut rd, &[65536], 1 << 24, 4);
            drop(rd);
            drop(b2);
            d
        });
        mt::no_sched();
        stat_add("mt_runs", 1);
        match g {
            Guarded::Stuck(w) => {
                out.push(CaseOut::viol(cell, format!("never-returns {rname} worker-failure-during-dispatch"), w, desc));
                break;
            }
            Guarded::Timeout => out.push(CaseOut::skip(cell, "watchdog without stuck predicate (inconclusive)", desc)),
            Guarded::Panicked(p) => out.push(CaseOut::viol(cell, format!("panic {rname} worker-failure-during-dispatch @{}", p.site()), p.short_msg(), desc)),
            Guarded::Done(d) => match drain_result(&d) {
                Ok(v) => out.push(CaseOut::viol(cell, format!("reports-success {rname} worker-failure-during-dispatch"), format!("Ok with {} bytes although the first chunk is invalid", v.len()), desc)),
                Err(_) => held += 1,
            },
        }
    }
    if held > 0 {
        out.push(CaseOut::held(format!("{rname}|worker-failure-during-dispatch"), true, format!("{held} trials: the worker failure reached the caller as Err")).times(held));
    }
    out
}

fn reader_case(ctx: &Ctx, idx: u64, r: &mut Rng, lzip: bool, tiny: bool) -> Vec<CaseOut> {
    let _ = ctx;
    mt::no_sched();
    let units = if idx < STEER { 3 } else { r.range(0, if tiny { 3 } else { 8 }) as usize };
    let (stream, data) = make_stream(r, lzip, units.max(if lzip { 1 } else { 0 }), tiny);
    let rname = if lzip { "LZIPReaderMT" } else { "LZMA2ReaderMT" };
    // choose the fault
    let fault = if idx < STEER {
        match idx / 4 {
            0 => Fault::CorruptUnit { unit: 1 },
            1 => {
                if lzip {
                    Fault::Truncate { at: stream.len() - 7 }
                } else {
                    Fault::MissingTerminator
                }
            }
            _ => Fault::ZeroBytes,
        }
    } else {
        match r.below(13) {
            12 => {
                if lzip {
                    Fault::TrailerSizeZero { member: r.usize_below(units.max(1)) }
                } else {
                    Fault::CorruptControl { chunk: r.usize_below(8) }
                }
            }
            0 => Fault::None,
            1 | 2 => Fault::CorruptUnit { unit: r.usize_below(units.max(1)) },
            3 => Fault::CorruptControl { chunk: r.usize_below(8) },
            4 | 5 => Fault::Truncate { at: r.usize_below(stream.len().max(1)) },
            6 => Fault::ZeroBytes,
            7 => {
                if lzip {
                    Fault::Truncate { at: stream.len().saturating_sub(1 + r.usize_below(25)) }
                } else {
                    Fault::MissingTerminator
                }
            }
            8 | 9 => Fault::SourceError { call: r.usize_below(40), kind: *r.pick(&KINDS) },
            10 => Fault::SourceErrorAtByte { at: r.usize_below(stream.len().max(1)), kind: *r.pick(&KINDS) },
            _ => Fault::Garbage,
        }
    };
    // apply byte-level faults
    let mut bytes = stream.clone();
    let mut plan = ReadPlan::default();
    match &fault {
        Fault::None => {}
        Fault::CorruptUnit { unit } => {
            if lzip {
                if let Ok(ms) = walk::walk_lzip(&stream) {
                    if let Some(m) = ms.get(*unit.min(&(ms.len().saturating_sub(1)))) {
                        if m.len > 30 {
                            let p = m.start + 8 + r.usize_below(m.len - 30);
                            bytes[p] ^= 0x10 | (1 << r.below(8)) as u8;
                        }
                    }
                }
            } else {
                let w = walk::walk_lzma2(&stream, 0);
                // the j-th dictionary-reset chunk starts unit j
                let starts: Vec<usize> = w.chunks.iter().enumerate().filter(|(_, c)| c.resets_dict()).map(|(i, _)| i).collect();
                if let Some(&ci) = starts.get(*unit.min(&starts.len().saturating_sub(1))) {
                    let c = &w.chunks[ci];
                    if c.payload > 8 {
                        let p = c.offset + c.header_len + 5 + r.usize_below(c.payload - 6);
                        bytes[p] ^= 0x10 | (1 << r.below(8)) as u8;
                        if !c.is_lzma() {
                            // uncompressed payloads cannot fail: damage the control byte instead
                            bytes[c.offset] = 0x03 + r.below(0x7C) as u8;
                        }
                    }
                }
            }
        }
        Fault::CorruptControl { chunk } => {
            if !lzip {
                let w = walk::walk_lzma2(&stream, 0);
                if !w.chunks.is_empty() {
                    let c = &w.chunks[*chunk % w.chunks.len()];
                    bytes[c.offset] = *r.pick(&[0x03u8, 0x7F, 0x80, 0xA0, 0xC0, 0xFF, 0x00]);
                }
            } else if bytes.len() > 6 {
                let p = r.usize_below(6);
                bytes[p] ^= 1 << r.below(8);
            }
        }
        Fault::TrailerSizeZero { member } => {
            if let Ok(ms) = walk::walk_lzip(&stream) {
                if ms.len() > 1 {
                    let m = &ms[*member % (ms.len() - 1)];
                    let e = m.start + m.len;
                    for b in &mut bytes[e - 8..e] {
                        *b = 0;
                    }
                }
            }
        }
        Fault::Truncate { at } => bytes.truncate(*at),
        Fault::ZeroBytes => bytes.clear(),
        Fault::MissingTerminator => {
            bytes.pop();
        }
        Fault::SourceError { call, kind } => plan.err_at_call = Some((*call, *kind)),
        Fault::SourceErrorAtByte { at, kind } => plan.err_at_byte = Some((*at, *kind)),
        Fault::Garbage => {
            let n = 1 + r.usize_below(300);
            bytes = r.bytes(n);
        }
    }
    if r.chance(1, 3) {
        plan.short = vec![*r.pick(&[1usize, 2, 7, 100])];
    }
    let workers = *r.pick(&[1u32, 2, 4, 16, 1, 2, 0, 300]);
    let sizes = vec![*r.pick(&[1usize, 13, 4096, 65536])];
    let cap = data.len() + (1 << 20);

    // sequential model on the same faulty input (same source plan)
    let st = {
        let src = FaultyRead::new(&bytes, plan.clone());
        if lzip {
            match LZIPReader::new(src) {
                Ok(mut rd) => drain(&mut rd, &[4096], cap, 4),
                Err(e) => Drain { out: vec![], end: Err(e), calls: 0, bound_hit: None },
            }
        } else {
            let mut rd = LZMA2Reader::new(src, 4096, None);
            drain(&mut rd, &[4096], cap, 4)
        }
    };
    let st_res = drain_result(&st);

    let sched = mt::random_sched(r);
    let quiet = mt::wait_quiet();
    let _ = quiet;
    mt::observe_begin();
    let b2 = bytes.clone();
    let p2 = plan.clone();
    let sz = sizes.clone();
    let flag = std::sync::Arc::new(std::sync::atomic::AtomicBool::new(false));
    let flag2 = flag.clone();
    // logical step bound: a reader may not call its source more often than this on `bytes`
    let budget = 200_000 + 64 * bytes.len();
    let bflag = std::sync::Arc::new(std::sync::atomic::AtomicBool::new(false));
    let bflag2 = bflag.clone();
    let g = mt::guarded(3000, 90_000, move || {
        // the reader lives on this thread; its source is an in-memory faulty reader
        let (mut src, _) = FaultyRead::new(unsafe_static(&b2), p2).with_budget(budget);
        src.budget_flag = Some(bflag2);
        src.err_flag = Some(flag2);
        let (d, delivered) = if lzip {
            match LZIPReaderMT::new(src, workers) {
                Ok(mut rd) => {
                    let d = drain(&mut rd, &sz, cap, 4);
                    // three more reads after the end / error must also return
                    let mut extra = [0u8; 16];
                    for _ in 0..3 {
                        let _ = std::io::Read::read(&mut rd, &mut extra);
                    }
                    (d, true)
                }
                Err(e) => (Drain { out: vec![], end: Err(e), calls: 0, bound_hit: None }, true),
            }
        } else {
            let mut rd = LZMA2ReaderMT::new(src, 4096, None, workers);
            let d = drain(&mut rd, &sz, cap, 4);
            let mut extra = [0u8; 16];
            for _ in 0..3 {
                let _ = std::io::Read::read(&mut rd, &mut extra);
            }
            (d, true)
        };
        let _ = delivered;
        drop(b2);
        d
    });
    let obs = mt::observe_end();
    mt::no_sched();
    stat_add("mt_runs", 1);
    if obs.worker_errors > 0 {
        stat_add("runs_with_worker_error", 1);
    }
    let cell = format!("{rname}|{}|w{workers}", fault.class());
    let desc = format!(
        "{rname} workers={workers} units={units} stream={}B fault={fault:?} short={:?} readbuf={sizes:?} sched=[{sched}] ST={}",
        bytes.len(),
        plan.short,
        match &st_res {
            Ok(v) => format!("Ok({} bytes)", v.len()),
            Err((k, m)) => format!("Err({k:?}: {m})"),
        }
    );
    stat_add(&format!("fault_{}", fault.class()), 1);
    match g {
        Guarded::Stuck(w) => vec![CaseOut::viol(cell, format!("never-returns {rname} {}", fault.class()), w, desc)],
        Guarded::Timeout => vec![CaseOut::skip(cell, "watchdog without stuck predicate (inconclusive)", desc)],
        Guarded::Panicked(p) => vec![CaseOut::viol(cell, format!("panic {rname} {} @{}", fault.class(), p.site()), p.short_msg(), desc)],
        Guarded::Done(_) if bflag.load(std::sync::atomic::Ordering::SeqCst) => vec![CaseOut::viol(
            cell,
            format!("unbounded-work {rname} {}", fault.class()),
            format!("the reader called its source more than {budget} times for {} input bytes", bytes.len()),
            desc,
        )],
        Guarded::Done(d) => {
            let mt_res = drain_result(&d);
            // a source error at a call index is only a fault if the MT reader made that call
            let delivered = flag.load(std::sync::atomic::Ordering::SeqCst);
            let st_res = if matches!(fault, Fault::SourceError { .. } | Fault::SourceErrorAtByte { .. }) && !delivered {
                stat_add("source_error_not_reached", 1);
                Ok(data.clone())
            } else {
                st_res
            };
            if matches!(fault, Fault::SourceError { .. } | Fault::SourceErrorAtByte { .. }) && delivered {
                stat_add("source_error_delivered", 1);
                if let Ok(out) = &mt_res {
                    return vec![CaseOut::viol(
                        cell,
                        format!("reports-success {rname} {} (error was delivered)", fault.class()),
                        format!("the source failed but the MT reader returned Ok with {} bytes", out.len()),
                        desc,
                    )];
                }
                if let (Fault::SourceError { kind, .. } | Fault::SourceErrorAtByte { kind, .. }, Err((mk, mm))) = (&fault, &mt_res) {
                    if mk != kind {
                        return vec![CaseOut::viol(
                            cell,
                            format!("error-kind-lost {rname} {}", fault.class()),
                            format!("source error {kind:?} surfaced as {mk:?}: {mm}"),
                            desc,
                        )];
                    }
                    return vec![CaseOut::held(cell, true, desc)];
                }
            }
            match (&st_res, &mt_res) {
                (Err((sk, _)), Ok(out)) => {
                    // the model says the input is incomplete / corrupt / the source failed
                    vec![CaseOut::viol(
                        cell,
                        format!("reports-success {rname} {} (ST: {sk:?})", fault.class()),
                        format!("MT reader returned Ok with {} bytes (complete data has {}), ST reader fails", out.len(), data.len()),
                        desc,
                    )]
                }
                (Ok(sv), Ok(out)) => {
                    if out != sv {
                        vec![CaseOut::viol(cell, format!("wrong-data {rname} {}", fault.class()), format!("MT Ok({}) vs ST Ok({})", out.len(), sv.len()), desc)]
                    } else {
                        vec![CaseOut::held(cell, true, desc)]
                    }
                }
                (Ok(_), Err((k, m))) => {
                    if matches!(fault, Fault::None) {
                        vec![CaseOut::viol(cell, format!("mt-reader-rejects-valid {rname} {k:?}:{m}"), "", desc)]
                    } else {
                        // stricter than ST on a faulty input: allowed
                        vec![CaseOut::held(cell, true, desc)]
                    }
                }
                (Err((sk, _)), Err((mk, mm))) => {
                    // injected source errors must keep their kind
                    if matches!(fault, Fault::SourceError { .. } | Fault::SourceErrorAtByte { .. }) && KINDS.contains(sk) && mk != sk {
                        vec![CaseOut::viol(
                            cell,
                            format!("error-kind-lost {rname} {}", fault.class()),
                            format!("source error {sk:?} surfaced as {mk:?}: {mm}"),
                            desc,
                        )]
                    } else {
                        vec![CaseOut::held(cell, true, desc)]
                    }
                }
            }
        }
    }
}

/// The faulty reader borrows the bytes; the closure owns them for its whole life, so extending the
/// borrow inside the closure is sound (the Vec is dropped after the reader).
fn unsafe_static(b: &Vec<u8>) -> &'static [u8] {
    // SAFETY: see above; the caller keeps `b` alive until the reader is gone.
    unsafe { std::slice::from_raw_parts(b.as_ptr(), b.len()) }
}

fn writer_case(ctx: &Ctx, idx: u64, r: &mut Rng, lzip: bool, tiny: bool) -> Vec<CaseOut> {
    let _ = ctx;
    let wname = if lzip { "LZIPWriterMT" } else { "LZMA2WriterMT" };
    let unit = 4096usize;
    let units = if idx < STEER { 3 } else { r.range(0, if tiny { 3 } else { 8 }) as usize };
    let len = if units == 0 { 0 } else { (units - 1) * unit + 1 + r.usize_below(unit) };
    let data = mt::stamped_data(r, len, unit, true);
    let workers = *r.pick(&[1u32, 2, 4, 16, 1, 2, 0, 300]);
    #[derive(Debug, Clone)]
    enum WF {
        None,
        SinkError { call: usize, kind: ErrorKind },
        /// the sink fails one write call and works again; the caller goes on writing and finishes
        SinkErrorOnce { call: usize, kind: ErrorKind },
        ShortWrites(usize),
        FlushError(ErrorKind),
        WorkerFail { unit: u64 },
        Interrupted { call: usize },
    }
    let wf = if idx < STEER {
        match idx / 4 {
            0 => WF::WorkerFail { unit: 1 },
            1 => WF::SinkError { call: 1, kind: ErrorKind::ConnectionReset },
            _ => WF::None,
        }
    } else {
        match r.below(10) {
            0 | 1 => WF::None,
            2 | 3 => WF::SinkError { call: r.usize_below(12), kind: *r.pick(&KINDS) },
            4 => WF::SinkErrorOnce { call: r.usize_below(8), kind: *r.pick(&KINDS) },
            5 => WF::ShortWrites(*r.pick(&[1usize, 3, 100])),
            6 => WF::FlushError(*r.pick(&KINDS)),
            7 | 8 => WF::WorkerFail { unit: r.below(units.max(1) as u64) },
            _ => WF::Interrupted { call: r.usize_below(6) },
        }
    };
    let mut plan = WritePlan::default();
    match &wf {
        WF::SinkError { call, kind } => plan.err_at_call = Some((*call, *kind)),
        WF::SinkErrorOnce { call, kind } => plan.err_once_at = Some((*call, *kind)),
        WF::ShortWrites(n) => plan.short = vec![*n],
        WF::FlushError(k) => plan.flush_err_at = Some((0, *k)),
        WF::Interrupted { call } => plan.interrupted_at = vec![*call],
        _ => {}
    }
    let partition = if r.chance(1, 2) { vec![data.len()] } else { crate::gen::gen_partition(r, data.len()) };
    let flush_mid = r.chance(1, 3);
    let write_after_error = r.chance(1, 2);
    let sched = mt::random_sched(r);
    if let WF::WorkerFail { unit } = &wf {
        verif::set_fp(Fp::WorkerFail, 1, 65536, 0, unit + 1);
    }
    let quiet = mt::wait_quiet();
    let _ = quiet;
    mt::observe_begin();
    let d2 = data.clone();
    let part = partition.clone();
    let plan2 = plan.clone();
    let once = matches!(wf, WF::SinkErrorOnce { .. });
    // result: (outcome of the call sequence, sink bytes if finish returned Ok, delivered faults)
    let g = mt::guarded(4000, 120_000, move || {
        let sink = FaultyWrite::new(plan2);
        let mut first_err: Option<std::io::Error> = None;
        macro_rules! drive {
            ($w:expr) => {{
                let mut w = $w;
                let mut off = 0usize;
                for (i, n) in part.iter().enumerate() {
                    let n = (*n).min(d2.len() - off);
                    let res = if n == 0 { w.write(&[]).map(|_| ()) } else { write_all_bounded(&mut w, &d2[off..off + n]) };
                    off += n;
                    if let Err(e) = res {
                        if first_err.is_none() {
                            first_err = Some(e);
                        }
                        // a one-time sink error: this caller carries on with the next piece
                        if !once {
                            break;
                        }
                    }
                    if flush_mid && i % 3 == 1 {
                        if let Err(e) = flush_bounded(&mut w) {
                            if first_err.is_none() {
                                first_err = Some(e);
                            }
                            if !once {
                                break;
                            }
                        }
                    }
                }
                if once {
                    // whatever was reported on the way: success of finish() is a claim about the stream
                    return match w.finish() {
                        Ok(s) => (Ok(()), first_err.is_some(), Some((s.out, s.delivered_err && first_err.is_none(), s.delivered_interrupts, s.delivered_short))),
                        Err(e) => (Err(first_err.unwrap_or(e)), false, None),
                    };
                }
                if first_err.is_some() && write_after_error {
                    // calls after an error must still return
                    let _ = w.write(b"after error");
                    let _ = w.flush();
                }
                if first_err.is_none() && off < d2.len() {
                    if let Err(e) = write_all_bounded(&mut w, &d2[off..]) {
                        first_err = Some(e);
                    }
                }
                match first_err {
                    Some(e) => {
                        // finish after an error must return as well
                        let fin = w.finish();
                        (Err(e), fin.is_ok(), None)
                    }
                    None => match w.finish() {
                        Ok(s) => (Ok(()), true, Some((s.out, s.delivered_err, s.delivered_interrupts, s.delivered_short))),
                        Err(e) => (Err(e), false, None),
                    },
                }
            }};
        }
        if lzip {
            let o = LZIPOptions { lzma_options: fast_opts(4096), member_size: NonZeroU64::new(unit as u64) };
            match LZIPWriterMT::new(sink, o, workers) {
                Ok(w) => drive!(w),
                Err(e) => (Err(e), false, None),
            }
        } else {
            let o = LZMA2Options { lzma_options: fast_opts(4096), chunk_size: NonZeroU64::new(unit as u64) };
            match LZMA2WriterMT::new(sink, o, workers) {
                Ok(w) => drive!(w),
                Err(e) => (Err(e), false, None),
            }
        }
    });
    let obs = mt::observe_end();
    mt::no_sched();
    stat_add("mt_runs", 1);
    let fclass = match &wf {
        WF::None => "no-fault",
        WF::SinkError { .. } => "sink-error",
        WF::SinkErrorOnce { .. } => "sink-error-once",
        WF::ShortWrites(_) => "short-writes",
        WF::FlushError(_) => "flush-error",
        WF::WorkerFail { .. } => "worker-failure",
        WF::Interrupted { .. } => "sink-interrupted",
    };
    stat_add(&format!("fault_{fclass}"), 1);
    let cell = format!("{wname}|{fclass}|w{workers}");
    let desc = format!(
        "{wname} workers={workers} units={units} len={} writes={} flush_mid={flush_mid} fault={wf:?} sched=[{sched}] worker_errors={}",
        data.len(),
        partition.len(),
        obs.worker_errors
    );
    match g {
        Guarded::Stuck(w) => vec![CaseOut::viol(cell, format!("never-returns {wname} {fclass}"), w, desc)],
        Guarded::Timeout => vec![CaseOut::skip(cell, "watchdog without stuck predicate (inconclusive)", desc)],
        Guarded::Panicked(p) => vec![CaseOut::viol(cell, format!("panic {wname} {fclass} @{}", p.site()), p.short_msg(), desc)],
        Guarded::Done((res, _finish_ok_after_err, sink)) => match (res, sink) {
            (Ok(()), Some((bytes, delivered_err, _ints, _shorts))) => {
                // success reported: the stream must hold all the data
                let injected_fail = matches!(wf, WF::WorkerFail { .. }) && obs.worker_errors > 0;
                let spec = Spec {
                    c: if lzip { Container::Lzip { member: None } } else { Container::Lzma2 { chunk: None } },
                    o: fast_opts(4096),
                };
                let st = crate::ours::decode_bytes(&spec, &bytes, 0, &[65536], data.len() + (1 << 20));
                if delivered_err {
                    return vec![CaseOut::viol(cell, format!("reports-success {wname} {fclass}"), "the sink returned an error that no call reported", desc)];
                }
                if injected_fail {
                    return vec![CaseOut::viol(cell, format!("reports-success {wname} {fclass}"), "a worker failed but finish() returned Ok", desc)];
                }
                if !st.is_ok() || st.out != data {
                    return vec![CaseOut::viol(
                        cell,
                        format!("reports-success {wname} {fclass} data-missing"),
                        format!("finish() Ok but the stream decodes to {} ({} of {} bytes)", st.err_string(), st.out.len(), data.len()),
                        desc,
                    )];
                }
                vec![CaseOut::held(cell, true, desc)]
            }
            (Err(e), _) => {
                match &wf {
                    WF::None | WF::ShortWrites(_) | WF::Interrupted { .. } => {
                        vec![CaseOut::viol(cell, format!("spurious-error {wname} {fclass} {:?}:{}", e.kind(), e), "no persistent fault was injected", desc)]
                    }
                    WF::SinkError { kind, .. } | WF::SinkErrorOnce { kind, .. } | WF::FlushError(kind) => {
                        if e.kind() != *kind {
                            vec![CaseOut::viol(cell, format!("error-kind-lost {wname} {fclass}"), format!("sink error {kind:?} surfaced as {:?}: {e}", e.kind()), desc)]
                        } else {
                            vec![CaseOut::held(cell, true, desc)]
                        }
                    }
                    WF::WorkerFail { .. } => vec![CaseOut::held(cell, true, desc)],
                }
            }
            (Ok(()), None) => vec![CaseOut::skip(cell, "harness: no sink", desc)],
        },
    }
}

#[allow(dead_code)]
fn _unused(_: Cursor<Vec<u8>>) {}
