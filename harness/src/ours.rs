//! Uniform driver over the crate's writers and readers.

use std::io::{self, Read, Seek, Write};
use std::num::NonZeroU64;

use lzma_rust2::{
    CheckType, FilterType, LZIPOptions, LZIPReader, LZIPReaderMT, LZIPWriter, LZIPWriterMT,
    LZMA2Options, LZMA2Reader, LZMA2ReaderMT, LZMA2Writer, LZMA2WriterMT, LZMAOptions, LZMAReader,
    LZMAWriter, XZOptions, XZReader, XZWriter,
};

use crate::fio::{drain, flush_bounded, write_partitioned, Drain};

#[derive(Clone, Debug, PartialEq)]
pub enum Container {
    /// .lzma header with the declared size, no end marker.
    LzmaHeaderSized,
    /// .lzma header with unknown size and end marker.
    LzmaHeaderMarker,
    /// headerless, end marker, reader told "unknown size".
    LzmaRawMarker,
    /// headerless, no end marker, reader given the size.
    LzmaRawSized,
    /// headerless, end marker AND the reader is given the size.
    LzmaRawMarkerSized,
    Lzma2 { chunk: Option<u64> },
    Xz { check: u8, block: Option<u64>, filters: Vec<(u8, u32)> },
    Lzip { member: Option<u64> },
    Lzma2Mt { chunk: u64, workers: u32 },
    LzipMt { member: u64, workers: u32 },
}

impl Container {
    pub fn name(&self) -> &'static str {
        match self {
            Container::LzmaHeaderSized => "lzma-hdr-size",
            Container::LzmaHeaderMarker => "lzma-hdr-eos",
            Container::LzmaRawMarker => "lzma-raw-eos",
            Container::LzmaRawSized => "lzma-raw-size",
            Container::LzmaRawMarkerSized => "lzma-raw-eos+size",
            Container::Lzma2 { chunk: None } => "lzma2",
            Container::Lzma2 { chunk: Some(_) } => "lzma2-chunked",
            Container::Xz { .. } => "xz",
            Container::Lzip { .. } => "lzip",
            Container::Lzma2Mt { .. } => "lzma2-mt",
            Container::LzipMt { .. } => "lzip-mt",
        }
    }
    pub fn is_lzma1(&self) -> bool {
        matches!(
            self,
            Container::LzmaHeaderSized
                | Container::LzmaHeaderMarker
                | Container::LzmaRawMarker
                | Container::LzmaRawSized
                | Container::LzmaRawMarkerSized
        )
    }
}

#[derive(Clone, Debug)]
pub struct Spec {
    pub c: Container,
    pub o: LZMAOptions,
}

impl Spec {
    pub fn desc(&self) -> String {
        format!("{:?} {}", self.c, crate::gen::opts_desc(&self.o))
    }
}

pub fn filter_type(id: u8) -> FilterType {
    match id {
        0x03 => FilterType::Delta,
        0x04 => FilterType::BcjX86,
        0x05 => FilterType::BcjPPC,
        0x06 => FilterType::BcjIA64,
        0x07 => FilterType::BcjARM,
        0x08 => FilterType::BcjARMThumb,
        0x09 => FilterType::BcjSPARC,
        0x0A => FilterType::BcjARM64,
        0x0B => FilterType::BcjRISCV,
        _ => FilterType::LZMA2,
    }
}

pub fn check_type(t: u8) -> CheckType {
    match t {
        0 => CheckType::None,
        1 => CheckType::Crc32,
        4 => CheckType::Crc64,
        _ => CheckType::Sha256,
    }
}

/// The options structs can be filled in through their public fields or through the setter and
/// constructor functions; which form a case uses is a fixed function of its parameters, so that both
/// API forms are part of every run.
fn api_form(o: &LZMAOptions, a: u64, b: u64) -> bool {
    (o.dict_size as u64 ^ o.nice_len as u64 ^ a ^ b.wrapping_mul(3)) & 1 == 1
}

fn filter_config(id: u8, prop: u32) -> lzma_rust2::FilterConfig {
    use lzma_rust2::FilterConfig as F;
    match id {
        0x03 => F::new_delta(prop),
        0x04 => F::new_bcj_x86(prop),
        0x05 => F::new_bcj_ppc(prop),
        0x06 => F::new_bcj_ia64(prop),
        0x07 => F::new_bcj_arm(prop),
        0x08 => F::new_bcj_arm_thumb(prop),
        0x09 => F::new_bcj_sparc(prop),
        0x0A => F::new_bcj_arm64(prop),
        0x0B => F::new_bcj_risc_v(prop),
        _ => F { filter_type: FilterType::LZMA2, property: prop },
    }
}

pub fn xz_options(o: &LZMAOptions, check: u8, block: Option<u64>, filters: &[(u8, u32)]) -> XZOptions {
    if api_form(o, check as u64, filters.len() as u64) {
        // setter / constructor form of the API
        let mut x = XZOptions::default();
        x.lzma_options = o.clone();
        x.set_check_sum_type(check_type(check));
        x.set_block_size(block.and_then(NonZeroU64::new));
        for (id, prop) in filters.iter() {
            x.filters.push(filter_config(*id, *prop));
        }
        return x;
    }
    let mut x = XZOptions::with_preset(6);
    x.lzma_options = o.clone();
    x.check_type = check_type(check);
    x.block_size = block.and_then(NonZeroU64::new);
    // filters are given in stream order; prepend in reverse
    for (id, prop) in filters.iter().rev() {
        x.prepend_pre_filter(filter_type(*id), *prop);
    }
    x
}

pub fn lzma2_options(o: &LZMAOptions, chunk: Option<NonZeroU64>) -> LZMA2Options {
    if api_form(o, chunk.map(|c| c.get()).unwrap_or(0), 1) {
        let mut x = LZMA2Options::with_preset(3);
        x.lzma_options = o.clone();
        x.set_chunk_size(chunk);
        return x;
    }
    LZMA2Options {
        lzma_options: o.clone(),
        chunk_size: chunk,
    }
}

pub fn lzip_options(o: &LZMAOptions, member: Option<NonZeroU64>) -> LZIPOptions {
    if api_form(o, member.map(|c| c.get()).unwrap_or(0), 2) {
        let mut x = LZIPOptions::with_preset(3);
        x.lzma_options = o.clone();
        x.set_member_size(member);
        return x;
    }
    LZIPOptions {
        lzma_options: o.clone(),
        member_size: member,
    }
}

/// Encodes `data` into `sink` following the call history. Returns the sink.
pub fn encode_to<W: Write>(
    spec: &Spec,
    sink: W,
    data: &[u8],
    partition: &[usize],
    flush_every: usize,
) -> io::Result<W> {
    encode_with(spec, sink, data.len() as u64, &mut |w: &mut dyn Write| {
        let mut w = w;
        write_partitioned(&mut w, data, partition, flush_every)
    })
}

/// When set (C19 only), `finish()` is called even after `drive` has failed - the way a caller's
/// clean-up path would - and the first error is returned. A panic in that `finish()` propagates.
pub static FINISH_AFTER_ERROR: std::sync::atomic::AtomicBool = std::sync::atomic::AtomicBool::new(false);

fn driven<T>(r: io::Result<()>, finish: impl FnOnce() -> io::Result<T>) -> io::Result<T> {
    match r {
        Ok(()) => finish(),
        Err(e) => {
            if FINISH_AFTER_ERROR.load(std::sync::atomic::Ordering::Relaxed) {
                let _ = finish();
            }
            Err(e)
        }
    }
}

/// Builds the writer of `spec` on `sink`, lets `drive` make the write / flush calls, finishes.
/// `total` is the number of bytes `drive` is going to write (the sized .lzma header needs it).
pub fn encode_with<W: Write>(spec: &Spec, sink: W, total: u64, drive: &mut dyn FnMut(&mut dyn Write) -> io::Result<()>) -> io::Result<W> {
    match &spec.c {
        Container::LzmaHeaderSized => {
            let mut w = LZMAWriter::new_use_header(sink, &spec.o, Some(total))?;
            let r = drive(&mut w);
            driven(r, || w.finish())
        }
        Container::LzmaHeaderMarker => {
            let mut w = LZMAWriter::new_use_header(sink, &spec.o, None)?;
            let r = drive(&mut w);
            driven(r, || w.finish())
        }
        Container::LzmaRawMarker | Container::LzmaRawMarkerSized => {
            let mut w = LZMAWriter::new_no_header(sink, &spec.o, true)?;
            let r = drive(&mut w);
            driven(r, || w.finish())
        }
        Container::LzmaRawSized => {
            let mut w = LZMAWriter::new_no_header(sink, &spec.o, false)?;
            let r = drive(&mut w);
            driven(r, || w.finish())
        }
        Container::Lzma2 { chunk } => {
            let opts = lzma2_options(&spec.o, chunk.and_then(NonZeroU64::new));
            let mut w = LZMA2Writer::new(sink, opts);
            let r = drive(&mut w);
            driven(r, || w.finish())
        }
        Container::Xz { check, block, filters } => {
            let mut w = XZWriter::new(sink, xz_options(&spec.o, *check, *block, filters))?;
            let r = drive(&mut w);
            driven(r, || w.finish())
        }
        Container::Lzip { member } => {
            let opts = lzip_options(&spec.o, member.and_then(NonZeroU64::new));
            let mut w = LZIPWriter::new(sink, opts);
            let r = drive(&mut w);
            driven(r, || w.finish())
        }
        Container::Lzma2Mt { chunk, workers } => {
            let opts = lzma2_options(&spec.o, NonZeroU64::new(*chunk));
            let mut w = LZMA2WriterMT::new(sink, opts, *workers)?;
            let r = drive(&mut w);
            driven(r, || w.finish())
        }
        Container::LzipMt { member, workers } => {
            let opts = lzip_options(&spec.o, NonZeroU64::new(*member));
            let mut w = LZIPWriterMT::new(sink, opts, *workers)?;
            let r = drive(&mut w);
            driven(r, || w.finish())
        }
    }
}

pub fn encode(spec: &Spec, data: &[u8], partition: &[usize], flush_every: usize) -> io::Result<Vec<u8>> {
    encode_to(spec, Vec::new(), data, partition, flush_every)
}

pub fn encode_simple(spec: &Spec, data: &[u8]) -> io::Result<Vec<u8>> {
    encode(spec, data, &[data.len()], 0)
}

pub struct Decoded<R> {
    pub drain: Drain,
    /// The source handed back by `into_inner` (None for readers without one / after panics).
    pub inner: Option<R>,
    pub ctor_err: Option<io::Error>,
    /// chunk_count()/member_count() of MT readers after the drain
    pub units: Option<u64>,
    /// Some(description) if a read after a clean end of stream did not return Ok(0)
    pub after_eos: Option<String>,
}

/// Decodes with the reader matching `spec`. `orig_len` is what the container would tell the
/// reader (only used by the LZMA raw-sized containers). Multi-stream is off for XZ.
pub fn decode_from<R: Read>(
    spec: &Spec,
    src: R,
    orig_len: u64,
    sizes: &[usize],
    max_out: usize,
) -> Decoded<R> {
    let pd = spec.o.preset_dict.as_deref();
    macro_rules! finish {
        ($r:expr) => {{
            let mut r = $r;
            let d = drain(&mut r, sizes, max_out, 64);
            // the end of the stream is final: further reads return Ok(0)
            let mut after_eos = None;
            if d.is_ok() {
                let mut extra = [0u8; 64];
                for k in 0..3 {
                    match r.read(&mut extra) {
                        Ok(0) => {}
                        Ok(n) => {
                            after_eos = Some(format!("read #{} after Ok(0) returned {n} more bytes", k + 1));
                            break;
                        }
                        Err(e) => {
                            after_eos = Some(format!("read #{} after Ok(0) failed: {:?}:{e}", k + 1, e.kind()));
                            break;
                        }
                    }
                }
            }
            Decoded {
                drain: d,
                inner: Some(r.into_inner()),
                ctor_err: None,
                units: None,
                after_eos,
            }
        }};
    }
    macro_rules! ctor {
        ($e:expr) => {
            match $e {
                Ok(r) => r,
                Err(e) => {
                    return Decoded {
                        drain: Drain {
                            out: Vec::new(),
                            end: Err(io::Error::new(e.kind(), e.to_string())),
                            calls: 0,
                            bound_hit: None,
                        },
                        inner: None,
                        ctor_err: Some(e),
                        units: None,
                        after_eos: None,
                    }
                }
            }
        };
    }
    match &spec.c {
        Container::LzmaHeaderSized | Container::LzmaHeaderMarker => {
            finish!(ctor!(LZMAReader::new_mem_limit(src, u32::MAX, pd)))
        }
        Container::LzmaRawMarker => {
            finish!(ctor!(LZMAReader::new(
                src,
                u64::MAX,
                spec.o.lc,
                spec.o.lp,
                spec.o.pb,
                spec.o.dict_size,
                pd
            )))
        }
        Container::LzmaRawSized | Container::LzmaRawMarkerSized => {
            finish!(ctor!(LZMAReader::new_with_props(
                src,
                orig_len,
                spec.o.get_props(),
                spec.o.dict_size,
                pd
            )))
        }
        Container::Lzma2 { .. } => finish!(LZMA2Reader::new(src, spec.o.dict_size, pd)),
        Container::Xz { .. } => finish!(XZReader::new(src, false)),
        Container::Lzip { .. } => finish!(ctor!(LZIPReader::new(src))),
        Container::Lzma2Mt { workers, .. } => {
            let mut r = LZMA2ReaderMT::new(src, spec.o.dict_size, pd, *workers);
            let d = drain(&mut r, sizes, max_out, 64);
            let units = Some(r.chunk_count());
            Decoded {
                drain: d,
                inner: None,
                ctor_err: None,
                units,
                after_eos: None,
            }
        }
        Container::LzipMt { .. } => {
            // needs Seek: handled by decode_lzip_mt
            Decoded {
                drain: Drain {
                    out: Vec::new(),
                    end: Err(io::Error::other("use decode_lzip_mt")),
                    calls: 0,
                    bound_hit: None,
                },
                inner: None,
                ctor_err: None,
                units: None,
                after_eos: None,
            }
        }
    }
}

pub fn decode_lzip_mt<R: Read + Seek>(src: R, workers: u32, sizes: &[usize], max_out: usize) -> Decoded<R> {
    match LZIPReaderMT::new(src, workers) {
        Ok(mut r) => {
            let units = Some(r.member_count() as u64);
            let d = drain(&mut r, sizes, max_out, 64);
            Decoded {
                drain: d,
                inner: None,
                ctor_err: None,
                units,
                after_eos: None,
            }
        }
        Err(e) => Decoded {
            drain: Drain {
                out: Vec::new(),
                end: Err(io::Error::new(e.kind(), e.to_string())),
                calls: 0,
                bound_hit: None,
            },
            inner: None,
            ctor_err: Some(e),
            units: None,
            after_eos: None,
        },
    }
}

/// Decode a complete in-memory stream with the matching ST reader (MT containers use the ST reader
/// of the same format).
pub fn decode_bytes(spec: &Spec, bytes: &[u8], orig_len: u64, sizes: &[usize], max_out: usize) -> Drain {
    let st = match &spec.c {
        Container::Lzma2Mt { .. } => Spec {
            c: Container::Lzma2 { chunk: None },
            o: spec.o.clone(),
        },
        Container::LzipMt { .. } => Spec {
            c: Container::Lzip { member: None },
            o: spec.o.clone(),
        },
        _ => spec.clone(),
    };
    decode_from(&st, bytes, orig_len, sizes, max_out).drain
}

pub fn flush_w<W: Write>(w: &mut W) -> io::Result<()> {
    flush_bounded(w)
}
