//! Model BCJ2 encoder (trusted base of the BCJ2 clauses of C05/C06/C11).
//!
//! Mirrors the stream format only: a main stream, big-endian absolute targets of converted CALL
//! (E8) and JUMP (E9 / 0F 8x) instructions in two side streams, and one range-coded decision bit
//! per branch site (probability index 2+prev for E8, 1 for E9, 0 for Jcc). Whether a site is
//! converted is chosen at random: every choice yields a correctly encoded stream, which drives the
//! decoder through all of its branches.

use crate::util::Rng;

const K_TOP: u32 = 1 << 24;
const NUM_MODEL_BITS: u32 = 11;
const BIT_MODEL_TOTAL: u32 = 1 << NUM_MODEL_BITS;
const NUM_MOVE_BITS: u32 = 5;

struct Rc {
    low: u64,
    range: u32,
    cache: u8,
    cache_size: u64,
    out: Vec<u8>,
}

impl Rc {
    fn new() -> Self {
        Rc {
            low: 0,
            range: 0xFFFF_FFFF,
            cache: 0,
            cache_size: 1,
            out: Vec::new(),
        }
    }
    fn shift_low(&mut self) {
        if (self.low as u32) < 0xFF00_0000 || (self.low >> 32) != 0 {
            let carry = (self.low >> 32) as u8;
            let mut temp = self.cache;
            loop {
                self.out.push(temp.wrapping_add(carry));
                temp = 0xFF;
                self.cache_size -= 1;
                if self.cache_size == 0 {
                    break;
                }
            }
            self.cache = (self.low >> 24) as u8;
        }
        self.cache_size += 1;
        self.low = (self.low & 0x00FF_FFFF) << 8;
    }
    fn encode(&mut self, prob: &mut u16, bit: bool) {
        let bound = (self.range >> NUM_MODEL_BITS) * (*prob as u32);
        if !bit {
            self.range = bound;
            *prob += ((BIT_MODEL_TOTAL - *prob as u32) >> NUM_MOVE_BITS) as u16;
        } else {
            self.low += bound as u64;
            self.range -= bound;
            *prob -= *prob >> NUM_MOVE_BITS;
        }
        while self.range < K_TOP {
            self.range <<= 8;
            self.shift_low();
        }
    }
    fn finish(mut self) -> Vec<u8> {
        for _ in 0..5 {
            self.shift_low();
        }
        self.out
    }
}

#[derive(Clone, Debug, Default)]
pub struct Bcj2Streams {
    pub main: Vec<u8>,
    pub call: Vec<u8>,
    pub jump: Vec<u8>,
    pub rc: Vec<u8>,
    pub sites: usize,
    pub converted: usize,
}

/// Encodes `data`; each convertible site is converted with probability `p_num/p_den`.
pub fn encode(data: &[u8], r: &mut Rng, p_num: u64, p_den: u64) -> Bcj2Streams {
    let mut s = Bcj2Streams::default();
    let mut rc = Rc::new();
    let mut probs = [(BIT_MODEL_TOTAL >> 1) as u16; 2 + 256];
    let n = data.len();
    let mut prev: u8 = 0;
    let mut i = 0usize;
    while i < n {
        let b = data[i];
        s.main.push(b);
        i += 1;
        let site = (b & 0xFE) == 0xE8 || (prev == 0x0F && (b & 0xF0) == 0x80);
        if !site {
            prev = b;
            continue;
        }
        s.sites += 1;
        let idx = if b == 0xE8 {
            2 + prev as usize
        } else if b == 0xE9 {
            1
        } else {
            0
        };
        let convert = i + 4 <= n && r.chance(p_num, p_den);
        rc.encode(&mut probs[idx], convert);
        if convert {
            s.converted += 1;
            let rel = u32::from_le_bytes([data[i], data[i + 1], data[i + 2], data[i + 3]]);
            let ip_after = (i + 4) as u32;
            let abs = rel.wrapping_add(ip_after);
            let dst = if b == 0xE8 { &mut s.call } else { &mut s.jump };
            dst.extend_from_slice(&abs.to_be_bytes());
            prev = data[i + 3];
            i += 4;
        } else {
            prev = b;
        }
    }
    s.rc = rc.finish();
    s
}
