use std::io::Write;

use lzv::case::{self, Ctx, Shard, Tier};

#[global_allocator]
static GLOBAL: lzv::alloc::Monitor = lzv::alloc::Monitor;

fn arg(args: &[String], name: &str) -> Option<String> {
    args.iter().position(|a| a == name).and_then(|i| args.get(i + 1).cloned())
}

fn main() {
    let args: Vec<String> = std::env::args().collect();
    if args.len() < 3 {
        eprintln!("usage: lzv run <PROP> --tier quick|thorough --seed N --shard i/n --variant V --out FILE [--progress FILE] [--scale PCT] [--only IDX] [--budget-s SECONDS]");
        std::process::exit(2);
    }
    let cmd = args[1].as_str();
    let prop = args[2].clone();
    let tier = match arg(&args, "--tier").as_deref() {
        Some("thorough") => Tier::Thorough,
        _ => Tier::Quick,
    };
    let seed: u64 = arg(&args, "--seed").and_then(|s| s.parse().ok()).unwrap_or(1);
    let variant = arg(&args, "--variant").unwrap_or_else(|| "rel".into());
    let scale_pct: u64 = arg(&args, "--scale").and_then(|s| s.parse().ok()).unwrap_or(100);
    let (si, sn) = arg(&args, "--shard")
        .and_then(|s| {
            let mut it = s.split('/');
            Some((it.next()?.parse::<u64>().ok()?, it.next()?.parse::<u64>().ok()?))
        })
        .unwrap_or((0, 1));
    let ctx = Ctx {
        prop: prop.clone(),
        seed,
        tier,
        variant,
        scale_pct,
    };
    case::install_panic_hook();
    let quiet_ms = match ctx.variant.as_str() {
        "rel" => 30_000,
        "dbg" => 60_000,
        _ => 240_000,
    };
    lzv::mt::SPIN_QUIET_MS.store(quiet_ms, std::sync::atomic::Ordering::Relaxed);
    if cfg!(miri) {
        // Miri cannot execute the asm block of decode_direct_bits
        lzma_rust2::verif::set_force_portable_direct_bits(true);
    }
    match cmd {
        "run" => {
            let out: Box<dyn Write> = match arg(&args, "--out") {
                Some(p) => Box::new(std::io::BufWriter::new(std::fs::File::create(p).expect("create out"))),
                None => Box::new(std::io::stdout()),
            };
            let progress = arg(&args, "--progress");
            let mut shard = Shard::new(out, progress.as_deref());
            let only: Option<u64> = arg(&args, "--only").and_then(|s| s.parse().ok());
            let phase = std::env::var("LZV_PHASE").is_ok();
            let n = lzv::props::n_cases(&ctx);
            let t0 = std::time::Instant::now();
            // wall budget: after it, no further case is started (the cases are pure functions of
            // (seed, idx), so every prefix is a valid exploration; what was left out is reported)
            let budget: Option<f64> = arg(&args, "--budget-s").and_then(|s| s.parse().ok());
            let mut not_started = 0u64;
            let mut idx = si;
            if let Some(from) = arg(&args, "--from").and_then(|s| s.parse::<u64>().ok()) {
                while idx < from {
                    idx += sn;
                }
            }
            while idx < n {
                if let Some(b) = budget {
                    // the deterministic steering block at the start of every check always runs
                    if idx >= 64 && t0.elapsed().as_secs_f64() > b {
                        not_started = (n - idx).div_ceil(sn);
                        break;
                    }
                }
                if only.is_none() || only == Some(idx) {
                    shard.mark(idx);
                    if phase {
                        eprintln!("PHASE {} {}", ctx.prop, idx);
                    }
                    let res = case::catch(|| lzv::props::run_case(&ctx, idx));
                    match res {
                        Ok(v) => {
                            for c in v {
                                shard.record(idx, c);
                            }
                        }
                        Err(p) => {
                            // a panic that escaped the case's own guards: still a panic of the
                            // library unless it is in the harness itself
                            let harness = p.loc.contains("harness/") || p.loc.starts_with("src/props") || p.loc.starts_with("src/bin");
                            let sig = if harness {
                                format!("HARNESS-PANIC @{}", p.site())
                            } else {
                                format!("panic @{}", p.site())
                            };
                            shard.record(
                                idx,
                                lzv::case::CaseOut::viol("uncaught", sig, p.short_msg(), format!("case {idx}")),
                            );
                        }
                    }
                }
                idx += sn;
            }
            let mut extra = lzv::props::summary_extra(&ctx);
            extra.push(("wall_s".into(), format!("{:.3}", t0.elapsed().as_secs_f64())));
            extra.push(("n_cases".into(), format!("{n}")));
            extra.push(("x_cases_not_started_wall_budget".into(), format!("{not_started}")));
            shard.finish(&extra);
            // library worker threads end asynchronously after their object is dropped: wait for
            // them (under Miri a worker that can never end shows up as a deadlock right here)
            lzv::mt::wait_quiet();
        }
        "describe" => {
            let only: u64 = arg(&args, "--only").and_then(|s| s.parse().ok()).unwrap_or(0);
            println!("{}", lzv::props::describe(&ctx, only));
        }
        "count" => {
            println!("{}", lzv::props::n_cases(&ctx));
        }
        _ => {
            eprintln!("unknown command {cmd}");
            std::process::exit(2);
        }
    }
}
