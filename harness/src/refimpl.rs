//! liblzma (xz 5.8) as the executable reference model.
#![cfg(feature = "ref")]

use liblzma::stream::{
    Action, Check, Error, Filters, LzmaOptions, MatchFinder, Mode, MtStreamBuilder, Status, Stream,
    CONCATENATED,
};

#[derive(Debug)]
pub struct RefOut {
    pub out: Vec<u8>,
    pub total_in: u64,
    pub ended: bool,
}

/// Runs a coder over the whole input with `Finish`. Err carries the liblzma error.
pub fn run(mut s: Stream, input: &[u8], cap: usize) -> Result<RefOut, Error> {
    let mut out: Vec<u8> = Vec::with_capacity((input.len() * 2).clamp(4096, 1 << 20));
    let mut stalls = 0;
    loop {
        if out.capacity() - out.len() < 4096 {
            out.reserve(out.len().max(65536));
        }
        let consumed = s.total_in() as usize;
        let before_out = s.total_out();
        let st = s.process_vec(&input[consumed..], &mut out, Action::Finish)?;
        if st == Status::StreamEnd {
            return Ok(RefOut {
                out,
                total_in: s.total_in(),
                ended: true,
            });
        }
        if out.len() > cap {
            return Ok(RefOut {
                out,
                total_in: s.total_in(),
                ended: false,
            });
        }
        if s.total_in() as usize == consumed && s.total_out() == before_out {
            stalls += 1;
            if stalls > 3 {
                return Ok(RefOut {
                    out,
                    total_in: s.total_in(),
                    ended: false,
                });
            }
        } else {
            stalls = 0;
        }
    }
}

pub fn decode_alone(b: &[u8], cap: usize) -> Result<RefOut, Error> {
    run(Stream::new_lzma_decoder(u64::MAX)?, b, cap)
}

pub fn lzma2_dict_prop(dict: u32) -> u8 {
    if dict == u32::MAX {
        return 40;
    }
    for p in 0u8..40 {
        let size = (2u32 | (p as u32 & 1)) << (p / 2 + 11);
        if size >= dict {
            return p;
        }
    }
    40
}

pub fn decode_raw_lzma2(b: &[u8], dict: u32, cap: usize) -> Result<RefOut, Error> {
    let mut f = Filters::new();
    f.lzma2_properties(&[lzma2_dict_prop(dict.max(4096))])?;
    run(Stream::new_raw_decoder(&f)?, b, cap)
}

pub fn decode_xz(b: &[u8], concatenated: bool, cap: usize) -> Result<RefOut, Error> {
    let flags = if concatenated { CONCATENATED } else { 0 };
    run(Stream::new_stream_decoder(u64::MAX, flags)?, b, cap)
}

pub fn decode_lzip(b: &[u8], concatenated: bool, cap: usize) -> Result<RefOut, Error> {
    let flags = if concatenated { CONCATENATED } else { 0 };
    run(Stream::new_lzip_decoder(u64::MAX, flags)?, b, cap)
}

#[derive(Clone, Debug)]
pub struct RefLzma {
    pub preset: u32,
    pub dict: Option<u32>,
    pub lc: Option<u32>,
    pub lp: Option<u32>,
    pub pb: Option<u32>,
    pub mode: Option<bool>, // true = normal
    pub nice: Option<u32>,
    pub mf: Option<u8>, // 0 hc3 1 hc4 2 bt2 3 bt3 4 bt4
    pub depth: Option<u32>,
}

impl RefLzma {
    pub fn preset(p: u32) -> Self {
        RefLzma {
            preset: p,
            dict: None,
            lc: None,
            lp: None,
            pb: None,
            mode: None,
            nice: None,
            mf: None,
            depth: None,
        }
    }
    pub fn desc(&self) -> String {
        format!("{self:?}")
    }
    pub fn build(&self) -> Result<LzmaOptions, Error> {
        let mut o = LzmaOptions::new_preset(self.preset)?;
        if let Some(d) = self.dict {
            o.dict_size(d);
        }
        if let Some(v) = self.lc {
            o.literal_context_bits(v);
        }
        if let Some(v) = self.lp {
            o.literal_position_bits(v);
        }
        if let Some(v) = self.pb {
            o.position_bits(v);
        }
        if let Some(v) = self.mode {
            o.mode(if v { Mode::Normal } else { Mode::Fast });
        }
        if let Some(v) = self.nice {
            o.nice_len(v);
        }
        if let Some(v) = self.mf {
            o.match_finder(match v {
                0 => MatchFinder::HashChain3,
                1 => MatchFinder::HashChain4,
                2 => MatchFinder::BinaryTree2,
                3 => MatchFinder::BinaryTree3,
                _ => MatchFinder::BinaryTree4,
            });
        }
        if let Some(v) = self.depth {
            o.depth(v);
        }
        Ok(o)
    }
}

pub fn encode_alone(data: &[u8], o: &RefLzma) -> Result<Vec<u8>, Error> {
    let opts = o.build()?;
    Ok(run(Stream::new_lzma_encoder(&opts)?, data, usize::MAX)?.out)
}

pub fn encode_raw_lzma2(data: &[u8], o: &RefLzma) -> Result<Vec<u8>, Error> {
    let opts = o.build()?;
    let mut f = Filters::new();
    f.lzma2(&opts);
    Ok(run(Stream::new_raw_encoder(&f)?, data, usize::MAX)?.out)
}

/// Pre-filter descriptor: id as in the XZ format (0x03 delta, 0x04..0x0B BCJ) and its property
/// (delta distance 1..256, BCJ start offset).
#[derive(Clone, Copy, Debug, PartialEq, Eq)]
pub struct PreFilter {
    pub id: u8,
    pub prop: u32,
}

pub fn add_prefilter(f: &mut Filters, pf: PreFilter) -> Result<(), Error> {
    let off = pf.prop.to_le_bytes();
    let props: &[u8] = if pf.prop == 0 { &[] } else { &off };
    match pf.id {
        0x03 => {
            f.delta_properties(&[(pf.prop - 1) as u8])?;
        }
        0x04 => {
            f.x86_properties(props)?;
        }
        0x05 => {
            f.powerpc_properties(props)?;
        }
        0x06 => {
            f.ia64_properties(props)?;
        }
        0x07 => {
            f.arm_properties(props)?;
        }
        0x08 => {
            f.arm_thumb_properties(props)?;
        }
        0x09 => {
            f.sparc_properties(props)?;
        }
        0x0A => {
            f.arm64_properties(props)?;
        }
        0x0B => {
            f.riscv_properties(props)?;
        }
        _ => return Err(Error::Options),
    }
    Ok(())
}

pub fn check_of(t: u8) -> Check {
    match t {
        0 => Check::None,
        1 => Check::Crc32,
        4 => Check::Crc64,
        _ => Check::Sha256,
    }
}

/// Encodes `data` as .xz with liblzma; `flush_points` (offsets into data) get a FullFlush (block
/// boundary).
pub fn encode_xz(
    data: &[u8],
    pre: &[PreFilter],
    o: &RefLzma,
    check: u8,
    flush_points: &[usize],
) -> Result<Vec<u8>, Error> {
    let opts = o.build()?;
    let mut f = Filters::new();
    for p in pre {
        add_prefilter(&mut f, *p)?;
    }
    f.lzma2(&opts);
    let mut s = Stream::new_stream_encoder(&f, check_of(check))?;
    let mut out: Vec<u8> = Vec::with_capacity(data.len() + 4096);
    let mut pos = 0usize;
    let mut points: Vec<usize> = flush_points.iter().copied().filter(|&p| p <= data.len()).collect();
    points.sort_unstable();
    points.dedup();
    for p in points {
        // feed data[pos..p] with FullFlush until StreamEnd
        let seg_end = p;
        loop {
            if out.capacity() - out.len() < 4096 {
                out.reserve(65536);
            }
            let before = s.total_in();
            let st = s.process_vec(&data[pos..seg_end], &mut out, Action::FullFlush)?;
            pos += (s.total_in() - before) as usize;
            if st == Status::StreamEnd {
                break;
            }
        }
    }
    loop {
        if out.capacity() - out.len() < 4096 {
            out.reserve(65536);
        }
        let before = s.total_in();
        let st = s.process_vec(&data[pos..], &mut out, Action::Finish)?;
        pos += (s.total_in() - before) as usize;
        if st == Status::StreamEnd {
            break;
        }
    }
    Ok(out)
}

/// liblzma's multi-threaded encoder (fills the optional size fields of block headers).
pub fn encode_xz_mt(data: &[u8], preset: u32, check: u8, block_size: u64, threads: u32) -> Result<Vec<u8>, Error> {
    let mut b = MtStreamBuilder::new();
    b.threads(threads).block_size(block_size).preset(preset).check(check_of(check));
    let s = b.encoder()?;
    Ok(run(s, data, usize::MAX)?.out)
}

/// What liblzma's filter emits for `data` (no code of the crate under test involved): encode with
/// raw [prefilter, lzma2], decode with raw [lzma2] only.
pub fn filter_encode(pf: PreFilter, data: &[u8]) -> Result<Vec<u8>, Error> {
    let opts = LzmaOptions::new_preset(0)?;
    let mut f = Filters::new();
    add_prefilter(&mut f, pf)?;
    f.lzma2(&opts);
    let enc = run(Stream::new_raw_encoder(&f)?, data, usize::MAX)?.out;
    let mut g = Filters::new();
    g.lzma2(&opts);
    Ok(run(Stream::new_raw_decoder(&g)?, &enc, usize::MAX)?.out)
}

/// liblzma's decoder side of a filter applied to `filtered`.
pub fn filter_decode(pf: PreFilter, filtered: &[u8]) -> Result<Vec<u8>, Error> {
    let opts = LzmaOptions::new_preset(0)?;
    let mut g = Filters::new();
    g.lzma2(&opts);
    let enc = run(Stream::new_raw_encoder(&g)?, filtered, usize::MAX)?.out;
    let mut f = Filters::new();
    add_prefilter(&mut f, pf)?;
    f.lzma2(&opts);
    Ok(run(Stream::new_raw_decoder(&f)?, &enc, usize::MAX)?.out)
}
