//! MT scenario support: schedule noise through the failpoint hooks, event-log observation, watchdog
//! with an exact "stuck" predicate, worker census.

use std::collections::BTreeMap;
use std::sync::mpsc;
use std::time::{Duration, Instant};

use lzma_rust2::verif::{self, Ev, Fp};

use crate::case::{catch, PanicInfo};
use crate::util::{hash64, Rng};

pub const ALL_FPS: [Fp; 9] = [
    Fp::StealBeforeWait,
    Fp::CloseBetweenStoreAndNotify,
    Fp::PushBeforeNotify,
    Fp::WorkerAfterSteal,
    Fp::WorkerBeforeSend,
    Fp::WorkerBeforeSetError,
    Fp::CoordBeforeRecv,
    Fp::CoordAfterDispatch,
    Fp::CoordBeforeSpawn,
];

pub fn is_miri() -> bool {
    cfg!(miri)
}

/// Seeded schedule noise: each failpoint independently off / yield / sleep.
pub fn random_sched(r: &mut Rng) -> String {
    verif::reset_fps(r.next_u64());
    let mut desc = Vec::new();
    let intensity = r.below(4);
    if intensity == 0 {
        return "none".into();
    }
    for fp in ALL_FPS {
        let roll = r.below(6);
        let (action, prob) = match roll {
            0 | 1 => (0u32, 0u32),
            2 => (1, 65536),
            3 => (1 + r.range(1, 50) as u32, 32768),
            4 => (1 + r.range(50, 500) as u32, 16384 * intensity as u32),
            _ => (1 + r.range(1, 2000) as u32, 4096),
        };
        // Miri: virtual time, keep sleeps tiny; yields are what matter there
        let action = if is_miri() && action > 1 { 1 } else { action };
        if action != 0 {
            verif::set_fp(fp, action, prob, 0, 0);
            desc.push(format!("{}={}@{}", verif::FP_NAMES[fp as usize], action, prob));
        }
    }
    if desc.is_empty() {
        "none".into()
    } else {
        desc.join(",")
    }
}

pub fn no_sched() {
    verif::reset_fps(1);
}

#[derive(Debug, Default, Clone)]
pub struct MtObs {
    pub n_events: usize,
    pub completion_order: Vec<u64>,
    pub out_of_order_completions: usize,
    pub buffered: usize,
    pub worker_errors: usize,
    pub spawned: usize,
    pub peak_workers: u64,
    pub started_workers: u64,
    pub sched_hash: u64,
    pub fp_hits: Vec<(u64, u64)>,
}

/// Waits (bounded) until workers of earlier objects are gone so that the census is per instance.
pub fn wait_quiet() -> bool {
    if is_miri() {
        verif::census_wait_zero(0);
        return true;
    }
    verif::census_wait_zero(5000) == 0
}

pub fn observe_begin() {
    verif::events_enable(true);
    verif::census_reset_peak();
}

pub fn observe_end() -> MtObs {
    let evs = verif::events_take();
    verif::events_enable(false);
    let mut o = MtObs {
        n_events: evs.len(),
        ..Default::default()
    };
    let mut trace = Vec::with_capacity(evs.len() * 2);
    let mut max_done: Option<u64> = None;
    for e in &evs {
        trace.push(e.kind as u8);
        trace.push((e.seq & 0xFF) as u8);
        match e.kind {
            Ev::WorkerDone => {
                o.completion_order.push(e.seq);
                if let Some(m) = max_done {
                    if e.seq < m {
                        o.out_of_order_completions += 1;
                    }
                }
                max_done = Some(max_done.map_or(e.seq, |m| m.max(e.seq)));
            }
            Ev::Buffered => o.buffered += 1,
            Ev::WorkerError => o.worker_errors += 1,
            Ev::Spawn => o.spawned += 1,
            _ => {}
        }
    }
    o.sched_hash = hash64(&trace);
    let (_, peak, total) = verif::census();
    o.peak_workers = peak;
    o.started_workers = total;
    o.fp_hits = verif::fp_stats().to_vec();
    o
}

#[derive(Debug)]
pub enum Guarded<T> {
    Done(T),
    Panicked(PanicInfo),
    /// Every thread of the process is blocked and none made progress: no progress is possible.
    Stuck(String),
    /// Watchdog fired but the stuck predicate did not hold: inconclusive.
    Timeout,
}

fn thread_self_tid() -> Option<u64> {
    std::fs::read_link("/proc/thread-self")
        .ok()
        .and_then(|p| p.file_name().and_then(|f| f.to_str().map(|s| s.to_string())))
        .and_then(|s| s.parse().ok())
}

/// (state, utime+stime) per thread of this process.
fn task_snapshot() -> BTreeMap<u64, (char, u64)> {
    let mut m = BTreeMap::new();
    if let Ok(rd) = std::fs::read_dir("/proc/self/task") {
        for e in rd.flatten() {
            let Some(tid) = e.file_name().to_str().and_then(|s| s.parse::<u64>().ok()) else {
                continue;
            };
            if let Ok(stat) = std::fs::read_to_string(e.path().join("stat")) {
                // pid (comm) state ...
                if let Some(rp) = stat.rfind(')') {
                    let rest: Vec<&str> = stat[rp + 1..].split_whitespace().collect();
                    if rest.len() > 13 {
                        let state = rest[0].chars().next().unwrap_or('?');
                        let ut: u64 = rest[11].parse().unwrap_or(0);
                        let st: u64 = rest[12].parse().unwrap_or(0);
                        m.insert(tid, (state, ut + st));
                    }
                }
            }
        }
    }
    m
}

/// The exact stuck predicate: over `samples` snapshots, every thread other than the caller is
/// sleeping with unchanged CPU time and the thread set is unchanged.
pub fn process_is_stuck(samples: usize, gap_ms: u64) -> (bool, String) {
    let me = thread_self_tid();
    let mut prev = task_snapshot();
    // logical progress counters of the hooks: failpoint hits and worker census. A run that sleeps in
    // failpoint delays between tiny steps shows no CPU time but does move these.
    let progress = || -> u64 {
        let fp: u64 = verif::fp_stats().iter().map(|(h, _)| *h).sum();
        let (live, _, total) = verif::census();
        fp.wrapping_mul(31).wrapping_add(live).wrapping_mul(31).wrapping_add(total)
    };
    let mut prev_progress = progress();
    for _ in 0..samples {
        std::thread::sleep(Duration::from_millis(gap_ms));
        let now_progress = progress();
        if now_progress != prev_progress {
            return (false, "hook counters moved (logical progress)".into());
        }
        prev_progress = now_progress;
        let cur = task_snapshot();
        if cur.len() != prev.len() {
            return (false, "thread set changed".into());
        }
        for (tid, (state, cpu)) in &cur {
            if Some(*tid) == me {
                continue;
            }
            match prev.get(tid) {
                None => return (false, "thread set changed".into()),
                Some((_, pcpu)) => {
                    if *state != 'S' || cpu != pcpu {
                        return (false, format!("thread {tid} is {state} / cpu moved"));
                    }
                }
            }
        }
        prev = cur;
    }
    (
        true,
        format!("{} other thread(s), all sleeping with constant CPU time over {} samples", prev.len().saturating_sub(1), samples),
    )
}

/// Runs a whole case of a property whose readers and writers are driven by plain calls under the
/// watchdog: a call that never comes back (blocked or spinning) becomes a violation of that case
/// instead of a dead shard.
pub fn watched(ctx: &crate::case::Ctx, idx: u64, label: &str, f: fn(&crate::case::Ctx, u64) -> Vec<crate::case::CaseOut>) -> Vec<crate::case::CaseOut> {
    use crate::case::CaseOut;
    if is_miri() {
        return f(ctx, idx);
    }
    let c2 = ctx.clone();
    match guarded(20_000, 600_000, move || f(&c2, idx)) {
        Guarded::Done(v) => v,
        Guarded::Panicked(p) => {
            let harness = p.loc.contains("harness/") || p.loc.starts_with("src/props") || p.loc.starts_with("src/bin");
            let sig = if harness { format!("HARNESS-PANIC @{}", p.site()) } else { format!("panic @{}", p.site()) };
            vec![CaseOut::viol("uncaught", sig, p.short_msg(), format!("case {idx}"))]
        }
        Guarded::Stuck(w) => vec![CaseOut::viol(format!("{label}|hang"), format!("never-returns {label}"), w, format!("case {idx} (lzv describe shows its parameters)"))],
        Guarded::Timeout => vec![CaseOut::skip(format!("{label}|hang"), "watchdog without stuck predicate (inconclusive)", format!("case {idx}"))],
    }
}

/// How long a scenario may burn CPU without any progress event before it is judged to be spinning.
/// Set per build variant by the runner (instrumented and unoptimised builds get more).
pub static SPIN_QUIET_MS: std::sync::atomic::AtomicU64 = std::sync::atomic::AtomicU64::new(30_000);

/// utime + stime of this process in clock ticks (10 ms on Linux), from /proc/self/stat.
fn process_cpu_ticks() -> u64 {
    let s = std::fs::read_to_string("/proc/self/stat").unwrap_or_default();
    // fields after the closing parenthesis of the command name: state is field 3, utime 14, stime 15
    let rest = s.rsplit(')').next().unwrap_or("");
    let f: Vec<&str> = rest.split_whitespace().collect();
    let get = |i: usize| f.get(i).and_then(|x| x.parse::<u64>().ok()).unwrap_or(0);
    get(11) + get(12)
}

/// Minor + major page faults of this process so far (fields 10 and 12 of /proc/self/stat). Touching
/// fresh memory is progress too: a constructor that zero-fills gigabytes of tables (the aligned
/// match-finder tables are `alloc_zeroed` with an over-aligned layout = allocate + memset) runs for
/// tens of seconds on a loaded machine without a single coder or I/O event, but faults a page in every
/// few microseconds; a loop that spins on unchanged state faults nothing.
fn process_page_faults() -> u64 {
    let s = std::fs::read_to_string("/proc/self/stat").unwrap_or_default();
    let rest = s.rsplit(')').next().unwrap_or("");
    let f: Vec<&str> = rest.split_whitespace().collect();
    let get = |i: usize| f.get(i).and_then(|x| x.parse::<u64>().ok()).unwrap_or(0);
    get(7) + get(9)
}

/// Runs `f` on its own thread under a watchdog. Under Miri `f` runs inline (the interpreter
/// reports deadlocks exactly).
pub fn guarded<T: Send + 'static>(first_check_ms: u64, hard_limit_ms: u64, f: impl FnOnce() -> T + Send + 'static) -> Guarded<T> {
    if is_miri() {
        return match catch(f) {
            Ok(v) => Guarded::Done(v),
            Err(p) => Guarded::Panicked(p),
        };
    }
    let (tx, rx) = mpsc::channel();
    let h = std::thread::Builder::new()
        .stack_size(16 << 20)
        .spawn(move || {
            let r = catch(f);
            let _ = tx.send(r);
        })
        .expect("spawn scenario thread");
    let t0 = Instant::now();
    let mut wait = first_check_ms;
    // livelock monitor: progress events are every coder symbol, window move, LZMA2 chunk, decoder
    // hand-over (hook counters), every call into the harness's sources and sinks, failpoint hits and
    // the worker census. A scenario that burns CPU for SPIN_QUIET_MS without a single one of them
    // is spinning (a legitimate decode or encode ticks thousands of times per millisecond).
    let work_progress = || -> u64 {
        let c: u64 = verif::counters().iter().fold(0u64, |a, b| a.wrapping_add(*b));
        let fp: u64 = verif::fp_stats().iter().map(|(h, _)| *h).sum();
        let (live, _, total) = verif::census();
        c.wrapping_add(crate::fio::IO_TICKS.load(std::sync::atomic::Ordering::Relaxed))
            .wrapping_add(fp)
            .wrapping_add(live)
            .wrapping_add(total.wrapping_mul(7))
            .wrapping_add(process_page_faults().wrapping_mul(13))
    };
    let spin_quiet_ms: u128 = SPIN_QUIET_MS.load(std::sync::atomic::Ordering::Relaxed) as u128;
    let mut last_progress = work_progress();
    let mut last_change = Instant::now();
    let mut last_cpu = process_cpu_ticks();
    loop {
        match rx.recv_timeout(Duration::from_millis(wait)) {
            Ok(Ok(v)) => {
                let _ = h.join();
                return Guarded::Done(v);
            }
            Ok(Err(p)) => {
                let _ = h.join();
                return Guarded::Panicked(p);
            }
            Err(mpsc::RecvTimeoutError::Disconnected) => {
                return Guarded::Panicked(PanicInfo {
                    msg: "scenario thread vanished".into(),
                    loc: "?".into(),
                })
            }
            Err(mpsc::RecvTimeoutError::Timeout) => {
                let (stuck, why) = process_is_stuck(4, 60);
                if stuck {
                    // confirm once more after a longer pause
                    std::thread::sleep(Duration::from_millis(300));
                    let (again, why2) = process_is_stuck(3, 100);
                    if again {
                        if let Ok(Ok(v)) = rx.try_recv() {
                            return Guarded::Done(v);
                        }
                        return Guarded::Stuck(format!("{why}; {why2}"));
                    }
                }
                let now = work_progress();
                if now != last_progress {
                    last_progress = now;
                    last_change = Instant::now();
                    last_cpu = process_cpu_ticks();
                } else if last_change.elapsed().as_millis() > spin_quiet_ms {
                    // no event for a long time: is the process computing at all? (at least half a core)
                    let cpu = process_cpu_ticks();
                    let burned_ms = cpu.saturating_sub(last_cpu) * 10;
                    if burned_ms as u128 > last_change.elapsed().as_millis() / 2 {
                        if let Ok(Ok(v)) = rx.try_recv() {
                            return Guarded::Done(v);
                        }
                        return Guarded::Stuck(format!(
                            "spinning: no progress event (coder symbol, decoder hand-over, source/sink call, worker start/stop, page fault) for {} ms while the process burned {} ms of CPU",
                            last_change.elapsed().as_millis(),
                            burned_ms
                        ));
                    }
                }
                if t0.elapsed().as_millis() as u64 > hard_limit_ms {
                    return Guarded::Timeout;
                }
                wait = (wait * 2).min(5000);
            }
        }
    }
}

/// Waits until the worker census is zero. Native: bounded wait, then the stuck predicate decides
/// whether the remaining workers can ever exit. Returns Ok(()) or Err(detail) for a confirmed leak,
/// or Ok with `inconclusive` flag.
pub enum Census {
    Zero,
    Leaked(String),
    Inconclusive(String),
}

pub fn wait_workers_gone(max_ms: u64) -> Census {
    if is_miri() {
        // blocks until zero; a leaked worker turns into an exact deadlock report by the interpreter
        verif::census_wait_zero(0);
        return Census::Zero;
    }
    let live = verif::census_wait_zero(max_ms.min(1500));
    if live == 0 {
        return Census::Zero;
    }
    let (stuck, why) = process_is_stuck(4, 80);
    if stuck {
        let live = verif::census_wait_zero(200);
        if live == 0 {
            return Census::Zero;
        }
        return Census::Leaked(format!("{live} worker thread(s) still alive; {why}"));
    }
    let live = verif::census_wait_zero(max_ms);
    if live == 0 {
        Census::Zero
    } else {
        let (stuck, why) = process_is_stuck(4, 100);
        if stuck {
            Census::Leaked(format!("{live} worker thread(s) still alive; {why}"))
        } else {
            Census::Inconclusive(format!("{live} workers alive after {max_ms} ms but the process is not idle: {why}"))
        }
    }
}

/// Builds a raw LZMA2 stream of uncompressed chunks: `units` of `chunks_per_unit` chunks each (each
/// unit starts with a dictionary reset, control 0x01). Cheap to decode (Miri). Returns (stream, data).
pub fn handmade_lzma2(r: &mut Rng, units: usize, chunks_per_unit: usize, chunk_len: usize, terminator: bool) -> (Vec<u8>, Vec<u8>) {
    let mut s = Vec::new();
    let mut data = Vec::new();
    for u in 0..units {
        for c in 0..chunks_per_unit {
            let n = chunk_len.max(1);
            s.push(if c == 0 { 0x01 } else { 0x02 });
            s.push(((n - 1) >> 8) as u8);
            s.push((n - 1) as u8);
            // unique content: unit id, chunk id, then noise
            let mut payload = vec![u as u8, c as u8];
            payload.resize(n, 0);
            for b in payload.iter_mut().skip(2) {
                *b = r.next_u32() as u8;
            }
            payload.truncate(n);
            s.extend_from_slice(&payload);
            data.extend_from_slice(&payload);
        }
    }
    if terminator {
        s.push(0);
    }
    (s, data)
}

/// Data whose units are all distinct (unit index stamped every 64 bytes) so that reordering,
/// duplication or loss of a unit always changes the bytes.
pub fn stamped_data(r: &mut Rng, len: usize, unit: usize, compressible: bool) -> Vec<u8> {
    if is_miri() {
        // interpreter: a few long matches per unit instead of thousands of symbols
        let unit = unit.max(1);
        let mut v = vec![0x41u8; len];
        let mut i = 0;
        while i + 4 <= len {
            v[i..i + 4].copy_from_slice(&((i / unit) as u32 ^ 0x5A5A_0000).to_le_bytes());
            i += unit;
        }
        return v;
    }
    let mut v = if compressible {
        let mut v = Vec::with_capacity(len);
        let words: [&[u8]; 6] = [b"alpha ", b"beta ", b"gamma ", b"delta ", b"epsilon ", b"\n"];
        while v.len() < len {
            v.extend_from_slice(words[r.usize_below(6)]);
        }
        v.truncate(len);
        v
    } else {
        r.bytes(len)
    };
    let unit = unit.max(1);
    let mut i = 0;
    while i + 4 <= len {
        let u = (i / unit) as u32;
        v[i..i + 4].copy_from_slice(&u.to_le_bytes());
        i += 64;
    }
    v
}
