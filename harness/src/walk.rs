//! Independent mini-parsers ("walkers") for LZMA2 chunk streams, XZ files and LZIP files. They share
//! no code with the crate under test and give the oracles ground truth about structure.

pub const CRC32: crc::Crc<u32> = crc::Crc::<u32>::new(&crc::CRC_32_ISO_HDLC);
pub const CRC64: crc::Crc<u64> = crc::Crc::<u64>::new(&crc::CRC_64_XZ);

pub fn crc32(b: &[u8]) -> u32 {
    CRC32.checksum(b)
}

pub fn crc64(b: &[u8]) -> u64 {
    CRC64.checksum(b)
}

pub fn sha256(b: &[u8]) -> [u8; 32] {
    use sha2::Digest;
    let mut h = sha2::Sha256::new();
    h.update(b);
    h.finalize().into()
}

#[derive(Clone, Debug)]
pub struct Lzma2Chunk {
    pub offset: usize,
    pub control: u8,
    pub header_len: usize,
    pub uncompressed: usize,
    /// payload bytes following the header
    pub payload: usize,
}

impl Lzma2Chunk {
    pub fn is_lzma(&self) -> bool {
        self.control >= 0x80
    }
    pub fn resets_dict(&self) -> bool {
        self.control >= 0xE0 || self.control == 0x01
    }
    pub fn total(&self) -> usize {
        self.header_len + self.payload
    }
}

#[derive(Clone, Debug)]
pub struct Lzma2Walk {
    pub chunks: Vec<Lzma2Chunk>,
    /// offset just past the 0x00 terminator (None if the stream is not terminated)
    pub end: Option<usize>,
    pub error: Option<String>,
}

impl Lzma2Walk {
    pub fn total_uncompressed(&self) -> usize {
        self.chunks.iter().map(|c| c.uncompressed).sum()
    }
    /// Uncompressed sizes of the independent units (runs starting at a dictionary reset).
    pub fn unit_sizes(&self) -> Vec<usize> {
        let mut v: Vec<usize> = Vec::new();
        for c in &self.chunks {
            if c.resets_dict() || v.is_empty() {
                v.push(0);
            }
            *v.last_mut().unwrap() += c.uncompressed;
        }
        v
    }
}

pub fn walk_lzma2(b: &[u8], start: usize) -> Lzma2Walk {
    let mut chunks = Vec::new();
    let mut p = start;
    loop {
        if p >= b.len() {
            return Lzma2Walk {
                chunks,
                end: None,
                error: Some(format!("eof at control byte, offset {p}")),
            };
        }
        let c = b[p];
        if c == 0 {
            return Lzma2Walk {
                chunks,
                end: Some(p + 1),
                error: None,
            };
        }
        let (hl, unc, pay) = if c >= 0x80 {
            let hl = if c >= 0xC0 { 6 } else { 5 };
            if p + hl > b.len() {
                return Lzma2Walk {
                    chunks,
                    end: None,
                    error: Some(format!("eof in chunk header at {p}")),
                };
            }
            let unc = (((c & 0x1F) as usize) << 16) + ((b[p + 1] as usize) << 8) + b[p + 2] as usize + 1;
            let comp = ((b[p + 3] as usize) << 8) + b[p + 4] as usize + 1;
            (hl, unc, comp)
        } else if c <= 2 {
            if p + 3 > b.len() {
                return Lzma2Walk {
                    chunks,
                    end: None,
                    error: Some(format!("eof in chunk header at {p}")),
                };
            }
            let n = ((b[p + 1] as usize) << 8) + b[p + 2] as usize + 1;
            (3, n, n)
        } else {
            return Lzma2Walk {
                chunks,
                end: None,
                error: Some(format!("reserved control byte {c:#x} at {p}")),
            };
        };
        if p + hl + pay > b.len() {
            return Lzma2Walk {
                chunks,
                end: None,
                error: Some(format!("eof in chunk payload at {p}")),
            };
        }
        chunks.push(Lzma2Chunk {
            offset: p,
            control: c,
            header_len: hl,
            uncompressed: unc,
            payload: pay,
        });
        p += hl + pay;
    }
}

/// Structural validity of an LZMA2 stream as the encoder must produce it.
pub fn check_lzma2_wellformed(w: &Lzma2Walk, has_preset_dict: bool) -> Result<(), String> {
    if let Some(e) = &w.error {
        return Err(e.clone());
    }
    let mut need_dict_reset = !has_preset_dict;
    let mut need_props = true;
    for c in &w.chunks {
        if c.resets_dict() {
            need_dict_reset = false;
            if c.control >= 0xE0 {
                need_props = false;
            } else {
                need_props = true; // after 0x01 the next LZMA chunk needs props
            }
        } else if need_dict_reset {
            return Err(format!(
                "chunk at {} (control {:#x}) before any dictionary reset",
                c.offset, c.control
            ));
        }
        if c.control >= 0x80 {
            if c.control >= 0xC0 {
                need_props = false;
            } else if need_props {
                return Err(format!(
                    "LZMA chunk at {} (control {:#x}) without properties",
                    c.offset, c.control
                ));
            }
            if c.uncompressed > (2 << 20) || c.payload > (64 << 10) {
                return Err("chunk size out of range".into());
            }
        }
    }
    Ok(())
}

pub fn read_vli(b: &[u8], p: &mut usize) -> Result<u64, String> {
    let mut v = 0u64;
    for i in 0..9 {
        if *p >= b.len() {
            return Err("eof in vli".into());
        }
        let x = b[*p];
        *p += 1;
        v |= ((x & 0x7F) as u64) << (7 * i);
        if x & 0x80 == 0 {
            if x == 0 && i > 0 {
                return Err("non-minimal vli".into());
            }
            return Ok(v);
        }
    }
    Err("vli too long".into())
}

pub fn write_vli(mut v: u64, out: &mut Vec<u8>) {
    while v >= 0x80 {
        out.push((v as u8) | 0x80);
        v >>= 7;
    }
    out.push(v as u8);
}

#[derive(Clone, Debug)]
pub struct XzFilter {
    pub id: u64,
    pub props: Vec<u8>,
}

#[derive(Clone, Debug)]
pub struct XzBlock {
    pub header_off: usize,
    pub header_len: usize,
    pub flags: u8,
    pub compressed_size_field: Option<u64>,
    pub uncompressed_size_field: Option<u64>,
    pub filters: Vec<XzFilter>,
    pub data_off: usize,
    /// compressed data length (through the LZMA2 walker)
    pub data_len: usize,
    pub padding: usize,
    pub check_off: usize,
    pub check_len: usize,
    pub lzma2: Lzma2Walk,
}

impl XzBlock {
    pub fn unpadded_size(&self) -> u64 {
        (self.header_len + self.data_len + self.check_len) as u64
    }
    pub fn end(&self) -> usize {
        self.check_off + self.check_len
    }
}

#[derive(Clone, Debug)]
pub struct XzStream {
    pub start: usize,
    pub check_type: u8,
    pub blocks: Vec<XzBlock>,
    pub index_off: usize,
    pub index_records: Vec<(u64, u64)>,
    pub index_len: usize,
    pub footer_off: usize,
    pub backward_size: u32,
    pub end: usize,
}

pub fn check_len(t: u8) -> usize {
    match t {
        0 => 0,
        1..=3 => 4,
        4..=6 => 8,
        7..=9 => 16,
        10..=12 => 32,
        _ => 64,
    }
}

/// Walks one XZ stream starting at `start`. Only streams whose last filter is LZMA2 are supported
/// (all that exist in this format in practice).
pub fn walk_xz_stream(b: &[u8], start: usize) -> Result<XzStream, String> {
    let mut p = start;
    if b.len() < p + 12 {
        return Err("short stream header".into());
    }
    if b[p..p + 6] != [0xFD, b'7', b'z', b'X', b'Z', 0] {
        return Err("bad magic".into());
    }
    if b[p + 6] != 0 {
        return Err("bad stream flags".into());
    }
    let check_type = b[p + 7];
    if crc32(&b[p + 6..p + 8]) != u32::from_le_bytes(b[p + 8..p + 12].try_into().unwrap()) {
        return Err("stream header crc".into());
    }
    p += 12;
    let cl = check_len(check_type);
    let mut blocks = Vec::new();
    loop {
        if p >= b.len() {
            return Err("eof at block header".into());
        }
        if b[p] == 0 {
            break;
        }
        let header_off = p;
        let header_len = (b[p] as usize + 1) * 4;
        if p + header_len > b.len() {
            return Err("eof in block header".into());
        }
        let h = &b[p..p + header_len];
        if crc32(&h[..header_len - 4]) != u32::from_le_bytes(h[header_len - 4..].try_into().unwrap()) {
            return Err("block header crc".into());
        }
        let flags = h[1];
        let mut q = 2;
        let nf = (flags & 3) as usize + 1;
        let mut csf = None;
        let mut usf = None;
        if flags & 0x40 != 0 {
            csf = Some(read_vli(h, &mut q)?);
        }
        if flags & 0x80 != 0 {
            usf = Some(read_vli(h, &mut q)?);
        }
        let mut filters = Vec::new();
        for _ in 0..nf {
            let id = read_vli(h, &mut q)?;
            let ps = read_vli(h, &mut q)? as usize;
            if q + ps > header_len - 4 {
                return Err("filter props overflow header".into());
            }
            filters.push(XzFilter {
                id,
                props: h[q..q + ps].to_vec(),
            });
            q += ps;
        }
        if h[q..header_len - 4].iter().any(|&x| x != 0) {
            return Err("block header padding".into());
        }
        if filters.last().map(|f| f.id) != Some(0x21) {
            return Err("last filter not lzma2".into());
        }
        let data_off = p + header_len;
        let lz = walk_lzma2(b, data_off);
        let Some(end) = lz.end else {
            return Err(format!("lzma2 walk: {:?}", lz.error));
        };
        let data_len = end - data_off;
        let padding = (4 - data_len % 4) % 4;
        let check_off = end + padding;
        if check_off + cl > b.len() {
            return Err("eof in block check".into());
        }
        if b[end..check_off].iter().any(|&x| x != 0) {
            return Err("block padding not zero".into());
        }
        blocks.push(XzBlock {
            header_off,
            header_len,
            flags,
            compressed_size_field: csf,
            uncompressed_size_field: usf,
            filters,
            data_off,
            data_len,
            padding,
            check_off,
            check_len: cl,
            lzma2: lz,
        });
        p = check_off + cl;
    }
    // index
    let index_off = p;
    let mut q = p + 1;
    let n = read_vli(b, &mut q)?;
    if n > (b.len() as u64) {
        return Err("index count too large".into());
    }
    let mut recs = Vec::new();
    for _ in 0..n {
        let u = read_vli(b, &mut q)?;
        let v = read_vli(b, &mut q)?;
        recs.push((u, v));
    }
    let pad = (4 - (q - index_off) % 4) % 4;
    if q + pad + 4 > b.len() {
        return Err("eof in index".into());
    }
    if b[q..q + pad].iter().any(|&x| x != 0) {
        return Err("index padding".into());
    }
    q += pad;
    if crc32(&b[index_off..q]) != u32::from_le_bytes(b[q..q + 4].try_into().unwrap()) {
        return Err("index crc".into());
    }
    q += 4;
    let index_len = q - index_off;
    let footer_off = q;
    if q + 12 > b.len() {
        return Err("eof in footer".into());
    }
    let f = &b[q..q + 12];
    if crc32(&f[4..10]) != u32::from_le_bytes(f[0..4].try_into().unwrap()) {
        return Err("footer crc".into());
    }
    let backward_size = u32::from_le_bytes(f[4..8].try_into().unwrap());
    if f[8] != 0 || f[9] != check_type {
        return Err("footer flags differ from header".into());
    }
    if f[10..12] != [b'Y', b'Z'] {
        return Err("footer magic".into());
    }
    Ok(XzStream {
        start,
        check_type,
        blocks,
        index_off,
        index_records: recs,
        index_len,
        footer_off,
        backward_size,
        end: q + 12,
    })
}

/// Full-format consistency of a walked stream (what liblzma enforces beyond per-field CRCs).
pub fn check_xz_consistent(s: &XzStream) -> Result<(), String> {
    if s.index_records.len() != s.blocks.len() {
        return Err(format!(
            "index has {} records for {} blocks",
            s.index_records.len(),
            s.blocks.len()
        ));
    }
    for (i, (blk, rec)) in s.blocks.iter().zip(&s.index_records).enumerate() {
        if blk.unpadded_size() != rec.0 {
            return Err(format!(
                "block {i}: index unpadded size {} != actual {}",
                rec.0,
                blk.unpadded_size()
            ));
        }
        if blk.lzma2.total_uncompressed() as u64 != rec.1 {
            return Err(format!(
                "block {i}: index uncompressed size {} != actual {}",
                rec.1,
                blk.lzma2.total_uncompressed()
            ));
        }
    }
    if (s.backward_size as usize + 1) * 4 != s.index_len {
        return Err(format!(
            "backward size {} != index length {}",
            (s.backward_size as usize + 1) * 4,
            s.index_len
        ));
    }
    Ok(())
}

#[derive(Clone, Debug)]
pub struct LzipMember {
    pub start: usize,
    pub dict_byte: u8,
    pub len: usize,
    pub crc: u32,
    pub data_size: u64,
    pub member_size: u64,
}

pub fn lzip_dict_size(byte: u8) -> Option<u32> {
    let log = (byte & 0x1F) as u32;
    let frac = (byte >> 5) as u32;
    if !(12..=29).contains(&log) {
        return None;
    }
    let base = 1u32 << log;
    let d = base - (base / 16) * frac;
    if (4096..=(512 << 20)).contains(&d) {
        Some(d)
    } else {
        None
    }
}

/// Walks LZIP members using the member_size field of the trailers, scanning forwards: each
/// member's end is found by trying the trailer's own member_size at candidate positions. Since the
/// compressed payload length is not in the header, the walker locates members from the back.
pub fn walk_lzip(b: &[u8]) -> Result<Vec<LzipMember>, String> {
    let mut members = Vec::new();
    let mut end = b.len();
    while end > 0 {
        if end < 26 {
            return Err(format!("{end} stray bytes at start"));
        }
        let t = &b[end - 20..end];
        let crc = u32::from_le_bytes(t[0..4].try_into().unwrap());
        let data_size = u64::from_le_bytes(t[4..12].try_into().unwrap());
        let member_size = u64::from_le_bytes(t[12..20].try_into().unwrap());
        if member_size < 26 || member_size > end as u64 {
            return Err(format!("bad member_size {member_size} at end {end}"));
        }
        let start = end - member_size as usize;
        if &b[start..start + 4] != b"LZIP" || b[start + 4] != 1 {
            return Err(format!("bad header at {start}"));
        }
        members.push(LzipMember {
            start,
            dict_byte: b[start + 5],
            len: member_size as usize,
            crc,
            data_size,
            member_size,
        });
        end = start;
    }
    members.reverse();
    Ok(members)
}
