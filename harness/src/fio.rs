//! Fault-injecting sources and sinks, and the harness's own bounded read loop.

use std::io::{self, ErrorKind, Read, Seek, SeekFrom, Write};

/// Calls made into the harness's sources and sinks, process-wide: a progress event for the watchdog.
pub static IO_TICKS: std::sync::atomic::AtomicU64 = std::sync::atomic::AtomicU64::new(0);

#[derive(Clone, Debug, Default)]
pub struct ReadPlan {
    /// The source ends (Ok(0)) after this many bytes.
    pub truncate_at: Option<usize>,
    /// Max bytes per read call, cycled. Empty = unlimited.
    pub short: Vec<usize>,
    /// Persistent error from this 0-based read call index on.
    pub err_at_call: Option<(usize, ErrorKind)>,
    /// Transient `Interrupted` at these call indices.
    pub interrupted_at: Vec<usize>,
    /// Persistent error once this many bytes have been delivered (next call fails).
    pub err_at_byte: Option<(usize, ErrorKind)>,
}

impl ReadPlan {
    pub fn one_byte() -> Self {
        ReadPlan {
            short: vec![1],
            ..Default::default()
        }
    }
}

pub struct FaultyRead<'a> {
    pub data: &'a [u8],
    pub pos: usize,
    pub calls: usize,
    pub plan: ReadPlan,
    pub delivered_err: bool,
    pub delivered_eof: bool,
    pub delivered_interrupts: usize,
    pub max_request: usize,
    /// set when a persistent error was delivered (observable after the reader took ownership)
    pub err_flag: Option<std::sync::Arc<std::sync::atomic::AtomicBool>>,
    /// logical step bound: after this many read/seek calls the source fails and raises `budget_flag`
    pub call_budget: Option<usize>,
    pub budget_flag: Option<std::sync::Arc<std::sync::atomic::AtomicBool>>,
}

impl<'a> FaultyRead<'a> {
    pub fn new(data: &'a [u8], plan: ReadPlan) -> Self {
        FaultyRead {
            data,
            pos: 0,
            calls: 0,
            plan,
            delivered_err: false,
            delivered_eof: false,
            delivered_interrupts: 0,
            max_request: 0,
            err_flag: None,
            call_budget: None,
            budget_flag: None,
        }
    }

    /// Installs a bound on the number of calls a reader may make on this source. A reader that
    /// exceeds it is doing unbounded work on bounded input.
    pub fn with_budget(mut self, calls: usize) -> (Self, std::sync::Arc<std::sync::atomic::AtomicBool>) {
        let f = std::sync::Arc::new(std::sync::atomic::AtomicBool::new(false));
        self.call_budget = Some(calls);
        self.budget_flag = Some(f.clone());
        (self, f)
    }

    fn over_budget(&mut self) -> bool {
        if let Some(b) = self.call_budget {
            if self.calls > b {
                if let Some(f) = &self.budget_flag {
                    f.store(true, std::sync::atomic::Ordering::SeqCst);
                }
                return true;
            }
        }
        false
    }

    fn mark_err(&mut self) {
        self.delivered_err = true;
        if let Some(f) = &self.err_flag {
            f.store(true, std::sync::atomic::Ordering::SeqCst);
        }
    }

    fn end(&self) -> usize {
        self.plan
            .truncate_at
            .map(|t| t.min(self.data.len()))
            .unwrap_or(self.data.len())
    }

    pub fn remaining(&self) -> &'a [u8] {
        &self.data[self.pos..]
    }
}

impl Read for FaultyRead<'_> {
    fn read(&mut self, buf: &mut [u8]) -> io::Result<usize> {
        IO_TICKS.fetch_add(1, std::sync::atomic::Ordering::Relaxed);
        let call = self.calls;
        self.calls += 1;
        self.max_request = self.max_request.max(buf.len());
        if self.over_budget() {
            return Err(io::Error::other("harness: source call budget exceeded"));
        }
        if let Some((c, k)) = self.plan.err_at_call {
            if call >= c {
                self.mark_err();
                return Err(io::Error::new(k, "injected source error"));
            }
        }
        if let Some((b, k)) = self.plan.err_at_byte {
            if self.pos >= b {
                self.mark_err();
                return Err(io::Error::new(k, "injected source error"));
            }
        }
        if self.plan.interrupted_at.contains(&call) {
            self.delivered_interrupts += 1;
            return Err(io::Error::new(ErrorKind::Interrupted, "injected interrupt"));
        }
        if buf.is_empty() {
            return Ok(0);
        }
        let mut end = self.end();
        if let Some((b, _)) = self.plan.err_at_byte {
            // never hand out bytes past the error position (pos < b here)
            end = end.min(b);
        }
        let avail = end.saturating_sub(self.pos);
        if avail == 0 {
            self.delivered_eof = true;
            return Ok(0);
        }
        let mut n = buf.len().min(avail);
        if !self.plan.short.is_empty() {
            let lim = self.plan.short[call % self.plan.short.len()].max(1);
            n = n.min(lim);
        }
        buf[..n].copy_from_slice(&self.data[self.pos..self.pos + n]);
        self.pos += n;
        Ok(n)
    }
}

impl Seek for FaultyRead<'_> {
    fn seek(&mut self, pos: SeekFrom) -> io::Result<u64> {
        self.calls += 1;
        if self.over_budget() {
            return Err(io::Error::other("harness: source call budget exceeded"));
        }
        let end = self.end() as i64;
        let new = match pos {
            SeekFrom::Start(p) => p as i64,
            SeekFrom::End(o) => end + o,
            SeekFrom::Current(o) => self.pos as i64 + o,
        };
        if new < 0 {
            return Err(io::Error::new(ErrorKind::InvalidInput, "seek before start"));
        }
        self.pos = (new as usize).min(self.data.len());
        Ok(new as u64)
    }
}

#[derive(Clone, Debug, Default)]
pub struct WritePlan {
    /// Max bytes accepted per write call, cycled. Empty = everything.
    pub short: Vec<usize>,
    /// Persistent error from this 0-based write call index on.
    pub err_at_call: Option<(usize, ErrorKind)>,
    /// Transient `Interrupted` at these call indices.
    pub interrupted_at: Vec<usize>,
    /// A real error at exactly this write call index; the sink works again afterwards.
    pub err_once_at: Option<(usize, ErrorKind)>,
    /// Flush fails (persistent) from this flush call index on.
    pub flush_err_at: Option<(usize, ErrorKind)>,
}

#[derive(Default)]
pub struct FaultyWrite {
    pub out: Vec<u8>,
    pub calls: usize,
    pub flushes: usize,
    pub plan: WritePlan,
    pub delivered_err: bool,
    pub delivered_interrupts: usize,
    pub delivered_short: usize,
}

impl FaultyWrite {
    pub fn new(plan: WritePlan) -> Self {
        FaultyWrite {
            plan,
            ..Default::default()
        }
    }
}

impl Write for FaultyWrite {
    fn write(&mut self, buf: &[u8]) -> io::Result<usize> {
        IO_TICKS.fetch_add(1, std::sync::atomic::Ordering::Relaxed);
        let call = self.calls;
        self.calls += 1;
        if let Some((c, k)) = self.plan.err_at_call {
            if call >= c {
                self.delivered_err = true;
                return Err(io::Error::new(k, "injected sink error"));
            }
        }
        if let Some((c, k)) = self.plan.err_once_at {
            if call == c {
                self.delivered_err = true;
                return Err(io::Error::new(k, "injected one-time sink error"));
            }
        }
        if self.plan.interrupted_at.contains(&call) {
            self.delivered_interrupts += 1;
            return Err(io::Error::new(ErrorKind::Interrupted, "injected interrupt"));
        }
        if buf.is_empty() {
            return Ok(0);
        }
        let mut n = buf.len();
        if !self.plan.short.is_empty() {
            let lim = self.plan.short[call % self.plan.short.len()].max(1);
            if lim < n {
                self.delivered_short += 1;
                n = lim;
            }
        }
        self.out.extend_from_slice(&buf[..n]);
        Ok(n)
    }

    fn flush(&mut self) -> io::Result<()> {
        let f = self.flushes;
        self.flushes += 1;
        if let Some((c, k)) = self.plan.flush_err_at {
            if f >= c {
                self.delivered_err = true;
                return Err(io::Error::new(k, "injected flush error"));
            }
        }
        Ok(())
    }
}

/// Outcome of draining a reader with the harness's bounded loop.
#[derive(Debug)]
pub struct Drain {
    pub out: Vec<u8>,
    /// Ok(()) if the reader returned Ok(0) on a non-empty buffer; the error otherwise.
    pub end: Result<(), io::Error>,
    pub calls: usize,
    /// The loop was stopped by a logical bound (output cap or call cap).
    pub bound_hit: Option<&'static str>,
}

impl Drain {
    pub fn is_ok(&self) -> bool {
        self.end.is_ok() && self.bound_hit.is_none()
    }
    pub fn err_string(&self) -> String {
        match (&self.end, self.bound_hit) {
            (_, Some(b)) => format!("bound:{b}"),
            (Err(e), _) => format!("{:?}:{}", e.kind(), e),
            (Ok(()), None) => "ok".into(),
        }
    }
}

/// Reads `r` to the end with the given buffer size sequence (cycled; zero sizes are issued as
/// zero-length reads and must return Ok(0) without ending the stream). `Interrupted` is retried at
/// most `max_retry` times per call.
pub fn drain<R: Read>(r: &mut R, sizes: &[usize], max_out: usize, max_retry: usize) -> Drain {
    let mut out = Vec::new();
    let mut calls = 0usize;
    let maxbuf = sizes.iter().copied().max().unwrap_or(4096).max(1);
    let mut buf = vec![0u8; maxbuf];
    let mut i = 0usize;
    // every successful non-empty read delivers at least one byte; zero-length reads are interleaved
    // at most len(sizes) per non-empty one
    let call_cap = (max_out + 4096).saturating_mul(sizes.len().max(1) + 1);
    loop {
        let sz = if sizes.is_empty() {
            4096
        } else {
            sizes[i % sizes.len()]
        };
        i += 1;
        let mut retries = 0;
        let res = loop {
            calls += 1;
            match r.read(&mut buf[..sz]) {
                Err(e) if e.kind() == ErrorKind::Interrupted && retries < max_retry => {
                    retries += 1;
                    continue;
                }
                other => break other,
            }
        };
        match res {
            Ok(0) if sz == 0 => {
                if calls > call_cap {
                    return Drain {
                        out,
                        end: Ok(()),
                        calls,
                        bound_hit: Some("calls"),
                    };
                }
                continue;
            }
            Ok(0) => {
                return Drain {
                    out,
                    end: Ok(()),
                    calls,
                    bound_hit: None,
                }
            }
            Ok(n) => {
                if n > sz {
                    return Drain {
                        out,
                        end: Err(io::Error::other("reader returned more than the buffer length")),
                        calls,
                        bound_hit: None,
                    };
                }
                out.extend_from_slice(&buf[..n]);
                if out.len() > max_out {
                    return Drain {
                        out,
                        end: Ok(()),
                        calls,
                        bound_hit: Some("output"),
                    };
                }
                if calls > call_cap {
                    return Drain {
                        out,
                        end: Ok(()),
                        calls,
                        bound_hit: Some("calls"),
                    };
                }
            }
            Err(e) => {
                return Drain {
                    out,
                    end: Err(e),
                    calls,
                    bound_hit: None,
                }
            }
        }
    }
}

/// Writes `data` to `w` following `partition` (sizes; zero = empty write; `flush_at` indices get a
/// flush after the write). Uses the harness's own write_all loop with bounded `Interrupted` retry.
pub fn write_partitioned<W: Write>(
    w: &mut W,
    data: &[u8],
    partition: &[usize],
    flush_every: usize,
) -> io::Result<()> {
    let mut off = 0;
    for (i, &n) in partition.iter().enumerate() {
        let n = n.min(data.len() - off);
        if n == 0 {
            // an empty write
            match w.write(&[]) {
                Ok(_) => {}
                Err(e) if e.kind() == ErrorKind::Interrupted => {}
                Err(e) => return Err(e),
            }
        } else {
            write_all_bounded(w, &data[off..off + n])?;
            off += n;
        }
        if flush_every != 0 && (i + 1) % flush_every == 0 {
            flush_bounded(w)?;
        }
    }
    if off < data.len() {
        write_all_bounded(w, &data[off..])?;
    }
    Ok(())
}

pub fn write_all_bounded<W: Write>(w: &mut W, mut buf: &[u8]) -> io::Result<()> {
    let mut retries = 0;
    let mut zero = 0;
    while !buf.is_empty() {
        match w.write(buf) {
            Ok(0) => {
                zero += 1;
                if zero > 8 {
                    return Err(io::Error::new(ErrorKind::WriteZero, "writer accepted nothing"));
                }
            }
            Ok(n) => {
                if n > buf.len() {
                    return Err(io::Error::other("writer claims more than given"));
                }
                buf = &buf[n..];
                retries = 0;
            }
            Err(e) if e.kind() == ErrorKind::Interrupted && retries < 64 => retries += 1,
            Err(e) => return Err(e),
        }
    }
    Ok(())
}

pub fn flush_bounded<W: Write>(w: &mut W) -> io::Result<()> {
    let mut retries = 0;
    loop {
        match w.flush() {
            Err(e) if e.kind() == ErrorKind::Interrupted && retries < 64 => retries += 1,
            other => return other,
        }
    }
}
