//! Runtime-monitoring harness for lzma-rust2 (properties C01-C19).
#![allow(clippy::too_many_arguments, clippy::type_complexity)]

pub mod alloc;
pub mod bcj2enc;
pub mod case;
pub mod fio;
pub mod gen;
pub mod mt;
pub mod ours;
pub mod props;
pub mod refimpl;
pub mod util;
pub mod walk;
